#!/bin/bash
# tools/batch_seeds.sh <worktree> <prefix> <prop1> <prop2> ...   verify SEED/1.. and keep as <prefix>-i
wt=$1; pre=$2; shift 2; i=0
for prop in "$@"; do
  i=$((i+1))
  if tools/verify_seed.sh "$wt" "$wt/SEED/$i" > /tmp/vs-out.txt 2>&1; then
    needs=$(grep -iE "trigger" "$wt/SEED/$i/NOTES.md" | head -2 | tr '\n' ' ' | cut -c1-300)
    tools/keep_seed.py "$pre-$i" "$prop" "$wt/SEED/$i" "${needs:-see NOTES.md}" >/dev/null
    echo "$pre-$i ($prop): kept  -- $(cat /tmp/vs-out.txt)"
  else
    echo "$pre-$i ($prop): NOT CONFIRMED -- $(cat /tmp/vs-out.txt)"
  fi
done
