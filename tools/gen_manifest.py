#!/usr/bin/env python3
"""Generates /verif/MANIFEST.json from the table below (kept next to the engines so the
manifest stays valid while engines are added)."""
import json, subprocess, os
HERE = os.path.dirname(os.path.dirname(os.path.abspath(__file__)))

ALL = ["C%02d" % i for i in range(1, 21)]

# id -> (level category, level text, design ref, level note, technique)
MC = "explicit-state / closure exploration of the real code (model checking of a sequential component: exhaustive BFS over an abstract state space whose every transition is executed by the implementation)"
BE = "bounded-exhaustive enumeration of inputs / programs / configurations on the real code against a reference model (model checking of a sequential component; nothing sampled inside the bound)"

CLAIMED = {
  "C01": ("model_checking",
          "Closure of the evaluator over ALL Boolean functions of k<=3 named variables: every node kind of the language on every operand tuple, executed by the real ParsedFormula::eval and compared with the truth-table definition; by structural induction this covers formulas of any depth over those variables. Plus every formula text with <= 4 AST nodes over the full alphabet (all alias spellings, two parenthesisations) and deeper strata through the real parser+evaluator, the stdout table of the real binary, plus structured larger-scope families (every node kind in every child position; chains to depth 40; counting lists to 9 operands; and/or chains over 33-70 variables against closed-form diagrams; fixed points needing up to 64 rounds against a bit-vector reference). Right level: the property quantifies over all programs; the compositional core has a finite, fully explored state space, the text front end is enumerated to a stated bound.",
          "DESIGN.md §1, §3 C01", "trusted: reference semantics in harness/src/refl.rs (golden-tested), canon()/truth-table walkers in robdd.rs; bounds: k<=3 variables for the closure, AST size for texts, fixed points only where the reference iteration converges", MC),
  "C02": ("model_checking",
          "Every transition result of the API closure and of the evaluator closure (k<=3, all operators incl. quantifier and counting detours) must be literally == an independently built reduced ordered diagram, hash-equal, ordered and reduced; every function of 4 variables along seven construction routes in a shared and in a fresh environment; cross-environment == iff equal truth tables on all 65536 pairs of F_3; outputs of model/retain/exists/all/aln/amn/exn/fp on all of F_4 canonical; operands that were never interned in the operating environment; a 185-member family over 6 variables on two symbol sets (ids up to 10^6). Right level: canonicity is a statement about all construction routes; the closure makes every route over k<=3 variables a composition of checked transitions.",
          "DESIGN.md §1, §3 C02", "trusted: canon() and is_ordered_reduced in harness/src/robdd.rs; bounds: k<=4 variables", MC),
  "C03": ("model_checking",
          "BFS closure through BDDEnv<usize>'s public connectives from {true,false,var} reaches all 2^(2^k) functions (k=2,3); then every connective on every operand tuple (ite: complete for k=2, condition restricted to literals/constants for k=3 in quick, all 16.7M triples in thorough), plus all 65536 functions of 4 variables against a basis in both argument positions, the k=3 sweep again with operands never interned in the operating environment, and a 185-member family over 6 variables on two symbol sets; oracle = pointwise truth-table operation, operands unchanged.",
          "DESIGN.md §1, §3 C03", "trusted: truth-table walker; bounds: k<=4", MC),
  "C04": ("exploration",
          "Every function over 3 and 4 ordered variables x every variable list of length <=3 (<=2 for k=4 in quick) incl. repeats and variables above/between/below the support x exists/all/exists_impl, with the algebraic side conditions of the property (independence of order and repetition, no quantified variable left, identity on disjoint lists, duality); plus the language's quantifier node on every function x list through the real evaluator, every quantifier formula text up to 4 (5) AST nodes (incl. quantifiers inside fixed points), every permutation of six quantified variables on a 6-variable family, variable ids congruent modulo 32/64, and and/or chains over 33-70 variables.",
          "DESIGN.md §3 C04", "trusted: brute-force cofactor quantification; bounds: k<=4, |V|<=3", BE),
  "C05": ("exploration",
          "Every operand list up to length 4 over all functions of 2 variables and up to length 2 over all functions of 3 variables x every bound in -2..L+2 and the admissible i64 extremes x aln/amn/exn; every pair of lists x the five list comparisons; a structured family of lists of 5..9 operands over 6 variables, every counting formula text to a node bound and the extreme-constant family around 2^63 / 2^64.",
          "DESIGN.md §3 C05", "trusted: per-assignment integer counting; bounds: k<=3, list length<=4", BE),
  "C06": ("exploration",
          "Every fixed-point body up to 5 (6) AST nodes over a binder-rich alphabet: the reference computes the transformer on ALL lattice points, decides monotonicity by brute force and compares the real lfp/mu/gfp/nu result against all pre-/post-fixed points (least / greatest among all competitors), with termination decided by a deterministic iteration budget; BDDEnv::fp on all 256 self-maps of a 4-element domain x all starts and on strictly increasing chains of every length 1..65 with a call-counting closure; k-bit counter reachability (2^k rounds, k <= 6) and its gfp dual against a bit-vector reference.",
          "DESIGN.md §3 C06", "trusted: reference semantics; hook H1 (fuel) for termination; bounds: body size, lattices of 16/256 points", BE),
  "C07": ("exploration",
          "model() on every function of 3 and 4 variables (cube shape, support, implication, False iff unsatisfiable), also on diagrams never interned in the environment asked, infer() on every model AND every function x every variable, structured families k=5..8 exhaustively, and `rsbdd -m -t` on every CLI formula up to 3 (4) nodes.",
          "DESIGN.md §3 C07", "trusted: cube/truth-table walkers, table reader; bounds: k<=4 exhaustive", BE),
  "C08": ("exploration",
          "bounded-exhaustive enumeration on the real lexer/parser: every string <= 5 (6) characters over a 16-character lexical alphabet, every token sequence <= 4 (5; 6 over one representative per grammar class) over the full 33-kind token alphabet and <= 3 (4) over all 47 spellings, every grammar sentence with <= 3 (4) AST nodes and the depth-2 family (every node kind in every child position) in three print styles and every one-token deletion/insertion/replacement of every sentence with <= 2 (3) nodes over the full alphabet and <= 4 (5) nodes over a syntactic alphabet; each compared (Err vs Ok(tree)) with an independent LL(1) reference.",
          "DESIGN.md §3 C08", "trusted: the reference lexer/parser in harness/src/refl.rs (cross-checked by printer/parser round trip on every sentence and golden cases); bounds: string length, token count, AST size as stated", BE),
  "C09": ("exploration",
          "Every reference-free AST up to 5 (6) nodes over a binder-heavy alphabet under the default and the reversed explicit variable order: free_vars, vars, raw2free/to_free_index and the support of eval() against the reference free-variable analysis.",
          "DESIGN.md §3 C09", "trusted: reference FV in refl.rs; bounds: AST size", BE),
  "C10": ("exploration",
          "The real rsbdd binary on every CLI formula up to 3 (4) nodes x filters, and on smaller formulas the complete configuration lattice (15 filter spellings + rejected near-misses, 3 input channels incl. multi-line input, every permutation/subset/superset ordering file, -v, -b N) incl. a full cross product on a 14-formula core; the printed table is read back and must be a disjoint cover with the reference value on every covered assignment.",
          "DESIGN.md §3 C10", "trusted: table reader (cells only), reference semantics and variable-order rule; bounds: formula size, <=6 names", BE),
  "C11": ("exploration",
          "Every CLI formula with 2..4 names x the complete ordering family (all permutations, ordered strict subsets, supersets, duplicates, decorated texts) through the real binary (-t, -r, -r re-import byte-identical, -d edge order) and through the API with non-contiguous ids (congruent modulo 32/64) for every permutation and every ordered strict subset as a partial ordering.",
          "DESIGN.md §3 C11", "trusted: reference semantics, DOT reader; bounds: formula size, <=4 names", BE),
  "C12": ("exploration",
          "bounded-exhaustive enumeration under catch_unwind / exit-status observation: every byte string <= 2 (3) bytes over all 256 values, every sequence of <= 4 (5) lexemes incl. extreme numbers, non-ASCII digits, unbalanced quotes/braces and NUL, flat inputs of every length 2..40, 2^j and 2^j+-1 up to 64 KiB incl. runs of 2-, 3- and 4-byte non-ASCII digits, every nesting depth 1..200 of nine nesting constructs, and the real rsbdd binary on a formula core x all 576 option combinations (+ -b 0 / -b 2 with every print-flag set) x 4 ordering files x 3 input channels plus every lexeme soup <= 2 (3) as formula and as ordering file.",
          "DESIGN.md §3 C12", "panic = unwinding panic caught in-process, exit status 101 / signal / no termination within 60 s for the binary; aborts (stack overflow) are found through the worker-crash path of the runner; evaluation only of formulas whose fixed points the reference finds convergent", BE),
  "C13": ("model_checking",
          "Explicit-state exploration of the hidden state of BDDEnv (contents of the unique table) for 2 variables: ALL 4228 child-closed table states, each built in a fresh real environment by a history of public calls, x every public operation on every tuple of interned nodes, with the sharing / leaf / size / monotonicity invariants and comparison with a fresh environment after every transition, an abstraction-soundness check (equal tables have equal futures) on every state-changing edge, all sequences of 2-3 operations (all connectives, exists, model, both retain filters, clean) on ONE long-lived environment with only the results held, one environment grown to ~66 000 nodes with sharing / recomputation checks, and all formula sequences <= 3 on a shared environment.",
          "DESIGN.md §3 C13", "trusted: state abstraction = table contents (checked by the abstraction check); bounds: 2 variables for the complete state space", MC),
  "C14": ("exploration",
          "Every function of 3 and 4 variables with names that need escaping x 3 filters through the real DOT exporter, read back by an independent reader and evaluated; every parse tree up to 3 (4) nodes over an alphabet with every node kind read back as a term; -d/-p files of the real binary compared with the API rendering.",
          "DESIGN.md §3 C14", "trusted: DOT reader (dot.rs); bounds: k<=4, AST size", BE),
  "C15": ("exploration",
          "The real n_queens_gen for n=1..12: exact model-set equality with an independent solver up to n=8 (10) by exhaustive enumeration, the real rsbdd on the output up to n=6 (7), structural exactness of the constraint families and attack-pair coverage up to n=12, and structural exactness for 19 larger boards up to n=300 (around the 8- and 16-bit limits).",
          "DESIGN.md §3 C15", "trusted: reference semantics/enumerator in puzzles.rs, brute-force queens solver", BE),
  "C16": ("exploration",
          "The real max_clique_gen on every edge set over 3 named vertices incl. self-loops (and over 4 vertices in thorough), every edge list <= 3, name families incl. vertices named like copies, x -u x -a: models of the emitted text by brute force = brute-force (maximum) cliques = what the real rsbdd lists.",
          "DESIGN.md §3 C16", "trusted: reference evaluator with brute-force quantifier; bounds: <=4 vertices", BE),
  "C17": ("exploration",
          "The real sudoku_gen: r=1 all puzzle texts <= 3 chars; r=2 the empty puzzle and every pattern of <= 2 givens in three layouts with exact model-set bijection against the 288 valid 4x4 grids; r=3 structural exactness plus rejection of all single-cell changes and in-row swaps of three valid grids.",
          "DESIGN.md §3 C17", "trusted: constraint-DFS enumerator (sound three-valued pruning), brute-force 4x4 solver", BE),
  "C18": ("exploration",
          "The real random_graph_gen with every random choice owned through the scripted-RNG hook: all m! shuffle outcomes for every candidate list of <= 6 edges x every edge count x formats, every ordered selection of <= 2 (3) edges for candidate lists of 10..20 edges, with a counting argument that the hook covers exactly all ordered selections; --complete, --convert on all edge lists <= 3, --colors on every loop-free graph on <= 4 vertices (two name families, one with names that are prefixes of each other) x k<=3 against brute-force colourability.",
          "DESIGN.md §3 C18", "hook H2 (scripted RNG); bounds: V<=3 directed / V<=4 undirected for the exhaustive shuffle enumeration; fresh-entropy runs are a labelled sampled supplement", BE),
  "C19": ("model_checking",
          "Explicit-state BFS over all pairs of subsets of a 2-bit (256 states) and 3-bit (65536 states) universe, every state rebuilt on real BDDSets by replaying its path, every operation incl. self-aliased operands and the query, followed by membership of every element forwards and backwards; plus all operation sequences up to depth 4 (5) on one long-lived pair.",
          "DESIGN.md §3 C19", "trusted: bit-mask reference sets; bounds: b<=3 bits, two sets", MC),
  "C20": ("exploration",
          "retain_choice_bottom_up on every function of 3 and 4 variables x 3 filters (implication direction, identity for Any, ordered/reduced, support, sharing; also on diagrams never interned in the environment) and `rsbdd -c` on every CLI formula up to 3 (4) nodes.",
          "DESIGN.md §3 C20", "trusted: truth-table walker, table reader; bounds: k<=4", BE),
}

NOT_YET = "engine not built yet in this session (work in progress; see DESIGN.md §10)"

def main():
    commits = subprocess.run(["git", "-C", "/repo", "log", "--format=%h %s"], capture_output=True, text=True).stdout.splitlines()
    hook_commits = [c.split()[0] for c in commits if c.split(" ", 1)[1].startswith("verif hook:")]
    checks = []
    for pid in ALL:
        if pid not in CLAIMED:
            continue
        cat, text, ref, note, tech = CLAIMED[pid]
        checks.append({
            "property_id": pid,
            "quick_cmd": "./check %s quick" % pid,
            "thorough_cmd": "./check %s thorough" % pid,
            "evidence_file": "/verif/evidence/%s.json" % pid,
            "replay_cmd_template": "./check %s --replay {path}" % pid,
            "engine": "vcheck",
            "level_claimed": {"category": cat, "text": text + " In addition the structured larger-scope families added after the seeded-change rounds (each explored exhaustively over the family; exact bounds in the engine's `rule` text in the evidence file and in DESIGN.md §3a / §8).", "design_ref": ref + ", §3a, §6"},
            "level_note": note,
            "technique": tech,
        })
    m = {
        "version": 1,
        "setup_cmd": "./check build",
        "hooks": {
            "guard": "cargo feature verif-hooks (crates rsbdd and random_graph_gen)",
            "enable": "harness depends on rsbdd with features=[verif-hooks]; binaries: cargo build --release --workspace --bins --features rsbdd/verif-hooks,random_graph_gen/verif-hooks (done by ./check build)",
            "baseline_off_cmd": "cd /repo && cargo test --workspace --no-fail-fast --offline",
            "source_commits": hook_commits,
            "add_only": True,
        },
        "engines": [{
            "name": "vcheck",
            "path": "/verif/harness",
            "serves_properties": sorted(CLAIMED.keys()),
            "kind_free_text": "Rust harness linking the real rsbdd crate (path dependency on /repo) and driving the real binaries; sharded worker processes enumerate bounded spaces exhaustively against a reference model (harness/src/refl.rs, robdd.rs)",
        }],
        "checks": checks,
        "not_applicable": [{"property_id": p, "reason": NOT_YET} for p in ALL if p not in CLAIMED],
        "notes": "Exit codes of ./check: 0 held (KNOWN-FINDING lines allowed), 1 VIOLATION, 2 machinery failure. known_findings.json lists recorded and fixed defects.",
    }
    json.dump(m, open(os.path.join(HERE, "MANIFEST.json"), "w"), indent=1)
    print("wrote MANIFEST.json with", len(checks), "checks")

if __name__ == "__main__":
    main()
