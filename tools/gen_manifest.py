#!/usr/bin/env python3
"""Generates /verif/MANIFEST.json from the table below (kept next to the engines so the
manifest stays valid while engines are added)."""
import json, subprocess, os
HERE = os.path.dirname(os.path.dirname(os.path.abspath(__file__)))

ALL = ["C%02d" % i for i in range(1, 21)]

# id -> (level category, level text, design ref, level note, technique)
CLAIMED = {
  "C08": ("exploration",
          "bounded-exhaustive enumeration on the real lexer/parser: every string <= 5 (6) characters over a 16-character lexical alphabet, every token sequence <= 4 (5; 6 over one representative per grammar class) over the full 33-kind token alphabet and <= 3 (4) over all 47 spellings, every grammar sentence with <= 3 (4) AST nodes in three print styles and every one-token deletion/insertion/replacement of every sentence with <= 2 (3) nodes over the full alphabet and <= 4 (5) nodes over a syntactic alphabet; each compared (Err vs Ok(tree)) with an independent LL(1) reference. Right level: the property quantifies over input strings, the space is enumerated completely up to the bound, nothing is sampled.",
          "DESIGN.md §3 C08",
          "trusted: the reference lexer/parser in harness/src/refl.rs (cross-checked by printer/parser round trip on every sentence and golden cases); bounds: string length, token count, AST size as stated",
          "bounded-exhaustive input enumeration (model checking of a sequential component against a reference model)"),
  "C12": ("exploration",
          "bounded-exhaustive enumeration under catch_unwind / exit-status observation: every byte string <= 2 (3) bytes over all 256 values, every sequence of <= 4 (5) lexemes incl. extreme numbers, non-ASCII digits, unbalanced quotes/braces and NUL, flat inputs of every length 2^j and 2^j+-1 up to 64 KiB, every nesting depth 1..200 of nine nesting constructs, and the real rsbdd binary on a formula core x all 576 option combinations x 4 ordering files x 3 input channels plus every lexeme soup <= 2 (3) as formula and as ordering file. Right level: the property is a pure for-all-inputs safety claim; inside the bound nothing is sampled.",
          "DESIGN.md §3 C12",
          "panic = unwinding panic caught in-process, exit status 101 / signal / no termination within 60 s for the binary; aborts (stack overflow) are found through the worker-crash path of the runner; evaluation only of formulas whose fixed points the reference finds convergent",
          "bounded-exhaustive input and configuration enumeration with crash oracle"),
}

NOT_YET = "engine not built yet in this session (work in progress; see DESIGN.md §10)"

def main():
    commits = subprocess.run(["git", "-C", "/repo", "log", "--format=%h %s"], capture_output=True, text=True).stdout.splitlines()
    hook_commits = [c.split()[0] for c in commits if c.split(" ", 1)[1].startswith("verif hook:")]
    checks = []
    for pid in ALL:
        if pid not in CLAIMED:
            continue
        cat, text, ref, note, tech = CLAIMED[pid]
        checks.append({
            "property_id": pid,
            "quick_cmd": "./check %s quick" % pid,
            "thorough_cmd": "./check %s thorough" % pid,
            "evidence_file": "/verif/evidence/%s.json" % pid,
            "replay_cmd_template": "./check %s --replay {path}" % pid,
            "engine": "vcheck",
            "level_claimed": {"category": cat, "text": text, "design_ref": ref},
            "level_note": note,
            "technique": tech,
        })
    m = {
        "version": 1,
        "setup_cmd": "./check build",
        "hooks": {
            "guard": "cargo feature verif-hooks (crates rsbdd and random_graph_gen)",
            "enable": "harness depends on rsbdd with features=[verif-hooks]; binaries: cargo build --release --workspace --bins --features rsbdd/verif-hooks,random_graph_gen/verif-hooks (done by ./check build)",
            "baseline_off_cmd": "cd /repo && cargo test --workspace --no-fail-fast --offline",
            "source_commits": hook_commits,
            "add_only": True,
        },
        "engines": [{
            "name": "vcheck",
            "path": "/verif/harness",
            "serves_properties": sorted(CLAIMED.keys()),
            "kind_free_text": "Rust harness linking the real rsbdd crate (path dependency on /repo) and driving the real binaries; sharded worker processes enumerate bounded spaces exhaustively against a reference model (harness/src/refl.rs, robdd.rs)",
        }],
        "checks": checks,
        "not_applicable": [{"property_id": p, "reason": NOT_YET} for p in ALL if p not in CLAIMED],
        "notes": "Exit codes of ./check: 0 held (KNOWN-FINDING lines allowed), 1 VIOLATION, 2 machinery failure. known_findings.json lists recorded and fixed defects.",
    }
    json.dump(m, open(os.path.join(HERE, "MANIFEST.json"), "w"), indent=1)
    print("wrote MANIFEST.json with", len(checks), "checks")

if __name__ == "__main__":
    main()
