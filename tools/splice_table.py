#!/usr/bin/env python3
"""Regenerates the seed table of DESIGN.md §6 in place from seeded/*/meta.json."""
import json, glob, os, re
os.chdir(os.path.dirname(os.path.dirname(os.path.abspath(__file__))))
rows = []
n_total = n_quick = n_thorough_only = n_missed = 0
order = {}
for d in sorted(glob.glob('seeded/*/')):
    m = json.load(open(d + 'meta.json'))
    det = m.get('detected_by', {})
    tgt = m['breaks_property']
    yes = sorted(k.split(':')[0] for k, v in det.items() if k.endswith(':quick') and v.startswith('DETECTED'))
    no = sorted(k.split(':')[0] for k, v in det.items() if k.endswith(':quick') and v.startswith('missed') and k.split(':')[0] != tgt)
    tq = det.get(tgt + ':quick', '')
    tt = det.get(tgt + ':thorough', '')
    n_total += 1
    if tq.startswith('DETECTED'):
        n_quick += 1
        verdict = ' '.join(("**%s**" % y if y == tgt else y) for y in yes)
    elif tt.startswith('DETECTED'):
        n_thorough_only += 1
        verdict = "**%s** (thorough tier only)" % tgt
    else:
        n_missed += 1
        verdict = "not reported (see log)"
    needs = m['needs_to_manifest'].replace('|', '\\|').replace('\n', ' ')
    needs = re.sub(r'^Trigger:\s*', '', needs)
    if len(needs) > 230:
        needs = needs[:227] + '...'
    rows.append("| %s | %s | %s | %s | %s |" % (m['id'], tgt, needs, verdict or '—', ' '.join(no) or '—'))
table = ["| seed | breaks | needs in order to manifest | reported by (quick tier) | also run, silent |", "|---|---|---|---|---|"] + rows
s = open('DESIGN.md').read()
i = s.index("| seed | breaks | needs in order to manifest |")
j = s.index("Where a seeded change was first MISSED")
s = s[:i] + "\n".join(table) + "\n\n" + s[j:]
open('DESIGN.md', 'w').write(s)
print("seeds", n_total, "quick", n_quick, "thorough-only", n_thorough_only, "not reported", n_missed)
