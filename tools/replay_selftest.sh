#!/bin/bash
# For each "<seed>:<check>" pair: apply the seeded change, run the check (must report a
# violation and write replay files), replay the first one (must exit 1 and print VIOLATION),
# restore /repo, replay the same file again (must exit 0). Shows that every engine's replay
# path reproduces its own findings and is silent on the repaired tree.
set -u
cd "$(dirname "$0")/.." || exit 2
fail=0
for pair in "$@"; do
  seed=${pair%%:*}; id=${pair##*:}
  if ! git -C /repo diff --quiet; then echo "/repo dirty"; exit 2; fi
  rm -f replays/$id-*.json
  git -C /repo apply "$PWD/seeded/$seed/patch.diff" || { echo "$pair: patch does not apply"; fail=1; continue; }
  ./check "$id" quick > .build/tmp/rst-$id.log 2>&1; rc1=$?
  f=$(ls replays/$id-*.json 2>/dev/null | head -1)
  if [ -z "$f" ]; then echo "$pair: no replay file (check rc=$rc1)"; git -C /repo checkout -- .; fail=1; continue; fi
  ./check "$id" --replay "$f" > .build/tmp/rst-$id-replay1.log 2>&1; rc2=$?
  git -C /repo checkout -- .
  ./check "$id" --replay "$f" > .build/tmp/rst-$id-replay2.log 2>&1; rc3=$?
  verdict=ok; [ $rc1 -eq 1 ] && [ $rc2 -eq 1 ] && [ $rc3 -eq 0 ] || { verdict=FAIL; fail=1; }
  echo "$pair: check rc=$rc1, replay with seed rc=$rc2, replay on repaired tree rc=$rc3 -> $verdict"
  rm -f replays/$id-*.json
done
exit $fail
