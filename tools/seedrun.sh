#!/bin/bash
# Apply a seeded change to /repo, run the named checks, restore /repo.
#   tools/seedrun.sh <patch.diff> [tier] <ID>...     (tier: quick|thorough, default quick)
# Prints one line per check: <ID> DETECTED|missed|machinery (exit status), and keeps the
# check output under .build/tmp/seedrun-<ID>.log. /repo is restored with git checkout.
set -u
cd "$(dirname "$0")/.." || exit 2
patch=$(realpath "$1"); shift
tier=quick
if [ "${1:-}" = quick ] || [ "${1:-}" = thorough ]; then tier=$1; shift; fi
if ! git -C /repo diff --quiet; then echo "/repo has uncommitted changes; refusing" >&2; exit 2; fi
restore() { git -C /repo checkout -- . ; git -C /repo clean -fdq -- tests/seed_demo.rs 2>/dev/null; }
trap restore EXIT
if ! git -C /repo apply "$patch"; then echo "patch does not apply" >&2; exit 2; fi
mkdir -p .build/tmp
for id in "$@"; do
  ./check "$id" "$tier" > ".build/tmp/seedrun-$id.log" 2>&1; rc=$?
  case $rc in
    0) echo "$id missed" ;;
    1) echo "$id DETECTED  $(grep -m1 -A2 '^VIOLATION' .build/tmp/seedrun-$id.log | grep 'case:' | head -c 200)" ;;
    *) echo "$id machinery rc=$rc $(tail -2 .build/tmp/seedrun-$id.log | head -c 300)" ;;
  esac
  rm -f replays/$id-*.json
done
