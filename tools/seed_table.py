#!/usr/bin/env python3
"""Prints the markdown table of kept seeded changes for DESIGN.md §6 from seeded/*/meta.json."""
import json, glob, os
os.chdir(os.path.dirname(os.path.dirname(os.path.abspath(__file__))))
print("| seed | breaks | needs in order to manifest | detected by (quick tier) | missed by (quick tier, of those run) |")
print("|---|---|---|---|---|")
for d in sorted(glob.glob('seeded/*/')):
    m = json.load(open(d + 'meta.json'))
    det = m.get('detected_by', {})
    yes = sorted(k.split(':')[0] for k, v in det.items() if k.endswith(':quick') and v.startswith('DETECTED'))
    no = sorted(k.split(':')[0] for k, v in det.items() if k.endswith(':quick') and v.startswith('missed'))
    tgt = m['breaks_property']
    yes = [("**%s**" % y if y == tgt else y) for y in yes]
    print("| %s | %s | %s | %s | %s |" % (m['id'], tgt, m['needs_to_manifest'].replace('|', '\\|'), ' '.join(yes) or '—', ' '.join(no) or '—'))
