#!/bin/bash
# Confirm a candidate seeded change in a scratch worktree (outside /repo and /verif):
#   tools/verify_seed.sh <worktree> <seed-dir>
# checks: demo passes on the pristine tree, fails with the patch; baseline suite (31 tests)
# passes with the patch. Prints a one-line verdict; exit 0 iff all three hold.
set -u
wt=$1; sd=$(realpath "$2")
cd "$wt" || exit 2
export CARGO_TARGET_DIR="$wt/target" CARGO_NET_OFFLINE=true
git checkout -q -- . ; rm -f tests/seed_demo.rs
# demo.rs = integration test; demo.sh = script taking the rsbdd binary (or, with DEMO_ARG=dir, target/debug)
rundemo() {
  if [ -f "$sd/demo.rs" ]; then timeout 600 cargo test --offline --test seed_demo
  else
    arg="$wt/target/debug/rsbdd"; grep -q "dir-with-built-binaries\|DEMO_ARG=dir" "$sd/NOTES.md" "$sd/demo.sh" 2>/dev/null && arg="$wt/target/debug"
    [ "${DEMO_ARG:-}" = dir ] && arg="$wt/target/debug"
    timeout 600 bash "$sd/demo.sh" "$arg"
  fi
}
[ -f "$sd/demo.rs" ] && cp "$sd/demo.rs" tests/seed_demo.rs
cargo build --offline --workspace >/dev/null 2>&1
if rundemo >/tmp/vs-demo0.log 2>&1; then d0=pass; else d0=FAIL; fi
if ! git apply "$sd/patch.diff"; then echo "patch does not apply"; rm -f tests/seed_demo.rs; exit 1; fi
cargo build --offline --workspace >/dev/null 2>&1
if rundemo >/tmp/vs-demo1.log 2>&1; then d1=PASS; else d1=fail; fi
rm -f tests/seed_demo.rs
timeout 900 cargo test --workspace --no-fail-fast --offline >/tmp/vs-base.log 2>&1
passed=$(grep -E "^test result" /tmp/vs-base.log | awk '{p+=$4; f+=$6} END {print p"/"f}')
git checkout -q -- . ; git clean -fdq -- tests/seed_demo.rs 2>/dev/null
echo "demo pristine=$d0 patched=$d1 baseline(passed/failed)=$passed"
[ "$d0" = pass ] && [ "$d1" = fail ] && [ "$passed" = "31/0" ]
