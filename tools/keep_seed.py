#!/usr/bin/env python3
"""tools/keep_seed.py <seed-id> <property> <src-seed-dir> <needs> -- copies a confirmed seeded
change into /verif/seeded/<seed-id>/ with a meta.json skeleton (detected_by is filled in by
tools/seed_matrix.py)."""
import json, os, shutil, sys
sid, prop, src, needs = sys.argv[1:5]
dst = os.path.join('/verif/seeded', sid)
os.makedirs(dst, exist_ok=True)
shutil.copy(os.path.join(src, 'patch.diff'), os.path.join(dst, 'patch.diff'))
for d in ('demo.rs', 'demo.sh'):
    if os.path.exists(os.path.join(src, d)):
        shutil.copy(os.path.join(src, d), os.path.join(dst, d))
if os.path.exists(os.path.join(src, 'NOTES.md')):
    shutil.copy(os.path.join(src, 'NOTES.md'), os.path.join(dst, 'NOTES.md'))
meta = {
    "id": sid,
    "breaks_property": prop,
    "needs_to_manifest": needs,
    "origin": "fresh sub-agent given only the property text and a scratch worktree",
    "confirmed": "tools/verify_seed.sh: demo passes on the pristine tree, fails with the patch; baseline suite 31/31 with the patch",
    "detected_by": {},
}
json.dump(meta, open(os.path.join(dst, 'meta.json'), 'w'), indent=1)
print("kept", dst)
