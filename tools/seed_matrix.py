#!/usr/bin/env python3
"""tools/seed_matrix.py [--tier quick|thorough] [--only SEED ...] [--checks C01,C02,...]
Applies every kept seeded change (seeded/<id>/patch.diff) to /repo in turn, runs the target
check plus a set of related cheap checks, restores /repo, and records per seed which checks
detect it (seeded/<id>/meta.json: detected_by)."""
import json, os, subprocess, sys, glob
os.chdir(os.path.dirname(os.path.dirname(os.path.abspath(__file__))))
args = sys.argv[1:]
tier = 'quick'; only = None; checks_override = None; target_only = False
while args:
    a = args.pop(0)
    if a == '--tier': tier = args.pop(0)
    elif a == '--only': only = []; 
    elif a == '--checks': checks_override = args.pop(0).split(',')
    elif a == '--target-only': target_only = True
    elif only is not None: only.append(a)
CHEAP = ['C02', 'C03', 'C04', 'C05', 'C06', 'C07', 'C09', 'C20', 'C14']
RELATED = {
  'C01': ['C01'] + CHEAP, 'C02': ['C01', 'C13'] + CHEAP, 'C03': ['C01'] + CHEAP, 'C04': ['C01'] + CHEAP,
  'C05': ['C01'] + CHEAP, 'C06': ['C01'] + CHEAP, 'C07': ['C10'] + CHEAP, 'C08': ['C08', 'C12', 'C01', 'C09'],
  'C09': ['C09', 'C01', 'C10', 'C08'], 'C10': ['C10', 'C11', 'C12', 'C07', 'C20'], 'C11': ['C11', 'C10', 'C09', 'C12'],
  'C12': ['C12', 'C08', 'C10'], 'C13': ['C13', 'C02', 'C14', 'C03', 'C20'], 'C14': ['C14', 'C13'],
  'C15': ['C15'], 'C16': ['C16'], 'C17': ['C17'], 'C18': ['C18'], 'C19': ['C19'], 'C20': ['C20', 'C10', 'C02'],
}
for d in sorted(glob.glob('seeded/*/')):
    sid = os.path.basename(d.rstrip('/'))
    if only and sid not in only: continue
    meta = json.load(open(d + 'meta.json'))
    prop = meta['breaks_property']
    checks = [prop] if target_only else (checks_override or list(dict.fromkeys([prop] + RELATED.get(prop, []))))
    out = subprocess.run(['tools/seedrun.sh', d + 'patch.diff', tier] + checks, capture_output=True, text=True).stdout
    det = meta.setdefault('detected_by', {})
    for line in out.splitlines():
        parts = line.split(None, 2)
        if len(parts) >= 2 and parts[0].startswith('C'):
            det[parts[0] + ':' + tier] = parts[1] + ((' ' + parts[2].strip()) if len(parts) > 2 and parts[1] == 'DETECTED' else '')
    meta['ran'] = "git -C /repo apply seeded/%s/patch.diff; ./check <ID> %s for the listed checks; git -C /repo checkout -- ." % (sid, tier)
    json.dump(meta, open(d + 'meta.json', 'w'), indent=1)
    tgt = det.get(prop + ':' + tier, '?')
    print("%-7s target %s: %-9s | detected by: %s | missed by: %s" % (sid, prop, tgt.split()[0], ' '.join(k.split(':')[0] for k, v in det.items() if k.endswith(tier) and v.startswith('DETECTED')), ' '.join(k.split(':')[0] for k, v in det.items() if k.endswith(tier) and v.startswith('missed'))), flush=True)
