//! Subprocess driver for the repository's binaries and readers for their output.
