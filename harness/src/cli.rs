//! Subprocess driver for the repository's binaries and readers for their output.

use crate::runner::{bin_dir, tmp_dir};
use std::io::{Read, Write};
use std::path::PathBuf;
use std::process::{Command, Stdio};
use std::time::{Duration, Instant};

#[derive(Debug, Clone)]
pub struct Run {
    pub code: Option<i32>,
    pub signal: Option<i32>,
    pub timed_out: bool,
    pub stdout: Vec<u8>,
    pub stderr: Vec<u8>,
}

impl Run {
    pub fn ok(&self) -> bool {
        self.code == Some(0)
    }
    /// panic (exit status 101), death by signal, or failure to terminate
    pub fn crashed(&self) -> bool {
        self.code == Some(101) || self.signal.is_some() || self.timed_out
    }
    pub fn out(&self) -> String {
        String::from_utf8_lossy(&self.stdout).into_owned()
    }
    pub fn err(&self) -> String {
        String::from_utf8_lossy(&self.stderr).into_owned()
    }
    pub fn describe(&self) -> String {
        if self.timed_out {
            "did not terminate within the time limit".into()
        } else if let Some(s) = self.signal {
            format!("killed by signal {s}")
        } else {
            format!("exit status {}", self.code.unwrap_or(-1))
        }
    }
    pub fn err_tail(&self) -> String {
        let e = self.err();
        let lines: Vec<&str> = e.lines().filter(|l| !l.starts_with("finished ") && !l.starts_with("omitted choice")).collect();
        lines.iter().rev().take(3).rev().cloned().collect::<Vec<_>>().join(" / ")
    }
}

pub const FUEL_ENV: &str = "RSBDD_VERIF_FP_FUEL";
pub const CLI_FUEL: &str = "20000";

/// run a repository binary; `env` entries are added to the environment
pub fn run_bin(bin: &str, args: &[String], stdin: Option<&[u8]>, env: &[(&str, String)]) -> Run {
    let path = bin_dir().join(bin);
    let mut c = Command::new(&path);
    c.args(args).stdout(Stdio::piped()).stderr(Stdio::piped());
    c.stdin(if stdin.is_some() { Stdio::piped() } else { Stdio::null() });
    c.env_remove("RSBDD_VERIF_RNG");
    c.env(FUEL_ENV, CLI_FUEL);
    c.env("RUST_BACKTRACE", "0");
    for (k, v) in env {
        c.env(k, v);
    }
    let mut ch = c.spawn().unwrap_or_else(|e| panic!("machinery: cannot run {}: {e}", path.display()));
    if let Some(data) = stdin {
        let mut si = ch.stdin.take().expect("stdin");
        let data = data.to_vec();
        // small inputs only; write then close
        let _ = si.write_all(&data);
        drop(si);
    }
    let mut so = ch.stdout.take().expect("stdout");
    let mut se = ch.stderr.take().expect("stderr");
    let t_out = std::thread::spawn(move || {
        let mut b = vec![];
        let _ = so.read_to_end(&mut b);
        b
    });
    let t_err = std::thread::spawn(move || {
        let mut b = vec![];
        let _ = se.read_to_end(&mut b);
        b
    });
    let limit = Duration::from_secs(std::env::var("VCHECK_CLI_TIMEOUT_S").ok().and_then(|s| s.parse().ok()).unwrap_or(60));
    let t0 = Instant::now();
    let mut timed_out = false;
    let status = loop {
        match ch.try_wait() {
            Ok(Some(st)) => break Some(st),
            Ok(None) => {
                if t0.elapsed() > limit {
                    let _ = ch.kill();
                    timed_out = true;
                    break ch.wait().ok();
                }
                std::thread::sleep(Duration::from_micros(300));
            }
            Err(_) => break None,
        }
    };
    let stdout = t_out.join().unwrap_or_default();
    let stderr = t_err.join().unwrap_or_default();
    use std::os::unix::process::ExitStatusExt;
    Run {
        code: status.and_then(|s| s.code()),
        signal: if timed_out { None } else { status.and_then(|s| s.signal()) },
        timed_out,
        stdout,
        stderr,
    }
}

pub fn rsbdd(args: &[String], stdin: Option<&[u8]>) -> Run {
    run_bin("rsbdd", args, stdin, &[])
}

/// a scratch directory private to this worker process
pub fn scratch() -> PathBuf {
    let p = tmp_dir().join(format!("w{}", std::process::id()));
    let _ = std::fs::create_dir_all(&p);
    p
}
pub fn scratch_file(name: &str, contents: &[u8]) -> PathBuf {
    let p = scratch().join(name);
    std::fs::write(&p, contents).expect("machinery: write scratch file");
    p
}
pub fn cleanup_scratch() {
    let _ = std::fs::remove_dir_all(scratch());
}

/// Run one of the generators through one of its channels:
///   mode 0: input on stdin, formula on stdout
///   mode 1: input as INPUT file argument, formula on stdout
///   mode 2: INPUT file and OUTPUT file arguments; the OUTPUT file exists already, is longer than
///           any formula of a small instance and has a name with a blank and a double quote
/// (`takes_input` false: the generator has only an OUTPUT argument; mode 1 then equals mode 0).
/// Returns the run with `stdout` holding the formula wherever it was written; in mode 2 anything
/// printed to stdout instead is appended after a marker line so that a caller's parser rejects it.
pub fn run_gen(bin: &str, flags: &[String], input: &[u8], takes_input: bool, mode: usize) -> Run {
    let mut args: Vec<String> = flags.to_vec();
    let mode = if !takes_input && mode == 1 { 0 } else { mode };
    let mut out_file: Option<PathBuf> = None;
    if takes_input && mode >= 1 {
        args.push(scratch_file("generator \"in\" put.txt", input).display().to_string());
    }
    if mode == 2 {
        let stale = format!("\"stale text of an earlier, larger instance\"\n{}\ntrue\n", "stale_variable_of_an_earlier_run &\n".repeat(20000));
        let f = scratch_file("generator \"out\" file.txt", stale.as_bytes());
        args.push(f.display().to_string());
        out_file = Some(f);
    }
    let mut r = run_bin(bin, &args, if takes_input && mode == 0 { Some(input) } else { None }, &[]);
    if let Some(f) = out_file {
        let written = std::fs::read(&f).unwrap_or_default();
        let mut all = written;
        if !r.stdout.is_empty() {
            all.extend_from_slice(b"\n<<< unexpected text on stdout although an OUTPUT file was given >>>\n");
            all.extend_from_slice(&r.stdout);
        }
        r.stdout = all;
    }
    r
}

pub fn s(x: &str) -> String {
    x.to_string()
}

// ---------------------------------------------------------------------------------------
// truth table reader

#[derive(Debug, Clone, Copy, PartialEq, Eq, Hash)]
pub enum Cell {
    T,
    F,
    Any,
}

#[derive(Debug, Clone, PartialEq, Eq)]
pub struct Table {
    pub header: Vec<String>,
    /// (cells per column, result)
    pub rows: Vec<(Vec<Cell>, bool)>,
}

/// Reads the `|`-separated table printed by `rsbdd -t`; only cell contents are read
/// (layout, widths and the separator line are the implementation's business).
pub fn parse_table(out: &str) -> Result<Table, String> {
    let mut lines = out.lines().filter(|l| l.starts_with('|'));
    let split = |l: &str| -> Vec<String> {
        let inner = l.trim().trim_start_matches('|').trim_end_matches('|');
        inner.split('|').map(|c| c.trim().to_string()).collect()
    };
    let header_line = lines.next().ok_or("no table header")?;
    let mut header = split(header_line);
    if header.last().map(String::as_str) != Some("*") {
        return Err(format!("header does not end with the result column: {header_line}"));
    }
    header.pop();
    let mut rows = vec![];
    for l in lines {
        let cells = split(l);
        if cells.iter().all(|c| !c.is_empty() && c.chars().all(|ch| ch == '-')) {
            continue; // separator line
        }
        if cells.len() != header.len() + 1 {
            return Err(format!("row has {} cells, header has {} columns: {l}", cells.len(), header.len() + 1));
        }
        let mut cs = vec![];
        for c in &cells[..header.len()] {
            cs.push(match c.as_str() {
                "True" => Cell::T,
                "False" => Cell::F,
                "Any" => Cell::Any,
                o => return Err(format!("unexpected cell '{o}' in row: {l}")),
            });
        }
        let res = match cells[header.len()].as_str() {
            "True" => true,
            "False" => false,
            o => return Err(format!("unexpected result '{o}' in row: {l}")),
        };
        rows.push((cs, res));
    }
    Ok(Table { header, rows })
}

/// all total assignments (bit i = column i) covered by a row
pub fn row_assignments(cells: &[Cell]) -> Vec<usize> {
    let k = cells.len();
    (0..(1usize << k))
        .filter(|a| cells.iter().enumerate().all(|(i, c)| match c {
            Cell::Any => true,
            Cell::T => (a >> i) & 1 == 1,
            Cell::F => (a >> i) & 1 == 0,
        }))
        .collect()
}

// ---------------------------------------------------------------------------------------
// one invocation of the rsbdd binary, reproducible from JSON

use serde_json::{json, Value};

#[derive(Debug, Clone, Copy, PartialEq, Eq)]
pub enum Channel {
    Evaluate,
    File,
    Stdin,
}

#[derive(Debug, Clone)]
pub struct Inv {
    pub formula: Vec<u8>,
    pub channel: Channel,
    pub ordering: Option<Vec<u8>>,
    /// plain flags and flag/value pairs, e.g. ["-t", "-f", "True"]
    pub opts: Vec<String>,
    pub dot: bool,
    pub parsetree: bool,
}

pub struct InvResult {
    pub run: Run,
    pub dot: Option<Vec<u8>>,
    pub parsetree: Option<Vec<u8>>,
}

impl Inv {
    pub fn new(formula: &str, opts: &[&str]) -> Inv {
        Inv { formula: formula.as_bytes().to_vec(), channel: Channel::Evaluate, ordering: None, opts: opts.iter().map(|x| x.to_string()).collect(), dot: false, parsetree: false }
    }
    pub fn with_ordering(mut self, o: &str) -> Inv {
        self.ordering = Some(o.as_bytes().to_vec());
        self
    }
    pub fn to_json(&self) -> Value {
        json!({
            "formula": String::from_utf8_lossy(&self.formula),
            "formula_bytes": self.formula,
            "channel": match self.channel { Channel::Evaluate => "evaluate", Channel::File => "file", Channel::Stdin => "stdin" },
            "ordering": self.ordering.as_ref().map(|o| String::from_utf8_lossy(o).into_owned()),
            "ordering_bytes": self.ordering,
            "opts": self.opts,
            "dot": self.dot,
            "parsetree": self.parsetree,
        })
    }
    pub fn from_json(v: &Value) -> Inv {
        let bytes = |k: &str| -> Option<Vec<u8>> { v.get(k).and_then(Value::as_array).map(|a| a.iter().map(|x| x.as_u64().unwrap_or(0) as u8).collect()) };
        Inv {
            formula: bytes("formula_bytes").unwrap_or_else(|| v["formula"].as_str().unwrap_or("").as_bytes().to_vec()),
            channel: match v["channel"].as_str() {
                Some("file") => Channel::File,
                Some("stdin") => Channel::Stdin,
                _ => Channel::Evaluate,
            },
            ordering: bytes("ordering_bytes").or_else(|| v["ordering"].as_str().map(|s| s.as_bytes().to_vec())),
            opts: v["opts"].as_array().map(|a| a.iter().map(|x| x.as_str().unwrap_or("").to_string()).collect()).unwrap_or_default(),
            dot: v["dot"].as_bool().unwrap_or(false),
            parsetree: v["parsetree"].as_bool().unwrap_or(false),
        }
    }
    pub fn key(&self) -> String {
        format!(
            "rsbdd {:?} via {:?}{} opts {:?}{}{}",
            String::from_utf8_lossy(&self.formula),
            self.channel,
            self.ordering.as_ref().map(|o| format!(" ordering {:?}", String::from_utf8_lossy(o))).unwrap_or_default(),
            self.opts,
            if self.dot { " -d" } else { "" },
            if self.parsetree { " -p" } else { "" }
        )
    }
    pub fn run(&self) -> InvResult {
        let mut args: Vec<String> = vec![];
        let mut stdin: Option<&[u8]> = None;
        // --evaluate needs valid UTF-8 on the command line; fall back to a file otherwise
        let chan = if self.channel == Channel::Evaluate && (std::str::from_utf8(&self.formula).is_err() || self.formula.contains(&0)) { Channel::File } else { self.channel };
        match chan {
            Channel::Evaluate => {
                args.push(format!("--evaluate={}", String::from_utf8_lossy(&self.formula)));
            }
            Channel::File => {
                let p = scratch_file("formula.txt", &self.formula);
                args.push(p.display().to_string());
            }
            Channel::Stdin => stdin = Some(&self.formula),
        }
        if let Some(o) = &self.ordering {
            let p = scratch_file("ordering.txt", o);
            args.push("-o".into());
            args.push(p.display().to_string());
        }
        args.extend(self.opts.iter().cloned());
        let dotp = scratch().join("out.dot");
        let ptp = scratch().join("out.pt.dot");
        let _ = std::fs::remove_file(&dotp);
        let _ = std::fs::remove_file(&ptp);
        if self.dot {
            args.push("-d".into());
            args.push(dotp.display().to_string());
        }
        if self.parsetree {
            args.push("-p".into());
            args.push(ptp.display().to_string());
        }
        let run = rsbdd(&args, stdin);
        InvResult { run, dot: if self.dot { std::fs::read(&dotp).ok() } else { None }, parsetree: if self.parsetree { std::fs::read(&ptp).ok() } else { None } }
    }
}

/// What a printed table says: for every total assignment of the header columns, how many
/// rows cover it with result True / False.
pub struct TableSem {
    pub k: usize,
    pub true_cover: Vec<u32>,
    pub false_cover: Vec<u32>,
}

pub fn table_sem(t: &Table) -> TableSem {
    let k = t.header.len();
    let mut tc = vec![0u32; 1 << k];
    let mut fc = vec![0u32; 1 << k];
    for (cells, res) in &t.rows {
        for a in row_assignments(cells) {
            if *res {
                tc[a] += 1;
            } else {
                fc[a] += 1;
            }
        }
    }
    TableSem { k, true_cover: tc, false_cover: fc }
}

/// project a reference truth table over `names` onto the header columns (the other names
/// are not free, the value does not depend on them): value per header assignment
pub fn project_ref(want: u64, names: &[String], header: &[String]) -> Result<Vec<bool>, String> {
    let cols: Vec<usize> = header.iter().map(|h| names.iter().position(|n| n == h).ok_or_else(|| format!("table column '{h}' is not a variable of the formula"))).collect::<Result<_, _>>()?;
    let mut out = vec![];
    for a in 0..(1usize << header.len()) {
        let mut full = 0usize;
        for (ci, c) in cols.iter().enumerate() {
            if (a >> ci) & 1 == 1 {
                full |= 1 << c;
            }
        }
        out.push((want >> full) & 1 == 1);
    }
    Ok(out)
}
