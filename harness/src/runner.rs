//! Orchestration: sharded worker processes, counters, violations, known findings, evidence.

use rustc_hash::FxHashSet;
use serde_json::{json, Map, Value};
use std::collections::BTreeMap;
use std::hash::{Hash, Hasher};
use std::io::{Read, Seek, SeekFrom, Write};
use std::path::{Path, PathBuf};
use std::process::{Command, Stdio};
use std::time::{Duration, Instant};

#[derive(Debug, Clone, Copy, PartialEq, Eq)]
pub enum Tier {
    Quick,
    Thorough,
}
impl Tier {
    pub fn name(self) -> &'static str {
        match self {
            Tier::Quick => "quick",
            Tier::Thorough => "thorough",
        }
    }
    pub fn parse(s: &str) -> Option<Tier> {
        match s {
            "quick" => Some(Tier::Quick),
            "thorough" => Some(Tier::Thorough),
            _ => None,
        }
    }
    pub fn thorough(self) -> bool {
        self == Tier::Thorough
    }
}

#[derive(Debug, Clone)]
pub struct Violation {
    pub key: String,
    pub what: String,
    pub replay: Value,
}

pub struct Engine {
    pub prop: &'static str,
    pub level: &'static str,
    pub rule: &'static str,
    pub assumptions: &'static [&'static str],
    /// maximum number of worker processes (1 = not shardable)
    pub max_shards: u64,
    pub run: fn(&mut Ctx),
    pub replay: fn(&mut Ctx, &Value),
}

pub struct Ctx {
    pub prop: String,
    pub tier: Tier,
    pub seed: u64,
    pub shard: u64,
    pub nshards: u64,
    pub replaying: bool,
    pub counters: BTreeMap<String, u64>,
    pub globals: BTreeMap<String, u64>,
    pub distinct: FxHashSet<u64>,
    pub samples: Vec<Value>,
    pub violations: Vec<Violation>,
    pub nviol: u64,
    pub notes: Vec<String>,
    pub capped: bool,
    trace: Option<std::fs::File>,
    pub cases: u64,
    sample_budget: usize,
    pub start: Instant,
}

pub const MAX_VIOLATIONS_KEPT: usize = 200;

pub fn fxhash<T: Hash>(t: &T) -> u64 {
    let mut h = rustc_hash::FxHasher::default();
    t.hash(&mut h);
    h.finish()
}

impl Ctx {
    pub fn new(prop: &str, tier: Tier, seed: u64, shard: u64, nshards: u64) -> Ctx {
        let trace = std::env::var("VCHECK_TRACE").ok().and_then(|p| std::fs::OpenOptions::new().create(true).write(true).truncate(true).open(p).ok());
        Ctx {
            prop: prop.to_string(),
            tier,
            seed,
            shard,
            nshards,
            replaying: false,
            counters: BTreeMap::new(),
            globals: BTreeMap::new(),
            distinct: FxHashSet::default(),
            samples: vec![],
            violations: vec![],
            nviol: 0,
            notes: vec![],
            capped: false,
            trace,
            cases: 0,
            sample_budget: 6,
            start: Instant::now(),
        }
    }
    /// does case number `idx` of a partitioned enumeration belong to this worker
    #[inline]
    pub fn mine(&self, idx: u64) -> bool {
        idx % self.nshards == self.shard
    }
    #[inline]
    pub fn count(&mut self, key: &str, n: u64) {
        if let Some(c) = self.counters.get_mut(key) {
            *c += n;
        } else {
            self.counters.insert(key.to_string(), n);
        }
    }
    /// a number every shard computes identically (e.g. states of a closure each shard rebuilds)
    pub fn global(&mut self, key: &str, n: u64) {
        self.globals.insert(key.to_string(), n);
    }
    #[inline]
    pub fn distinct<T: Hash>(&mut self, t: &T) {
        self.distinct.insert(fxhash(t));
    }
    #[inline]
    pub fn distinct_hash(&mut self, h: u64) {
        self.distinct.insert(h);
    }
    /// announce the case about to be executed; the descriptor is only built in trace mode
    /// (after a worker crash) and is the same JSON the engine's `replay` accepts
    #[inline]
    pub fn begin_case(&mut self, descr: impl FnOnce() -> Value) {
        self.cases += 1;
        if let Some(f) = self.trace.as_mut() {
            let s = descr().to_string();
            let _ = f.seek(SeekFrom::Start(0));
            let _ = f.write_all(s.as_bytes());
            let _ = f.set_len(s.len() as u64);
        }
    }
    /// keep a few of the actual cases as samples: the first ones and seeded picks
    pub fn sample(&mut self, descr: impl FnOnce() -> Value) {
        if self.samples.len() >= self.sample_budget {
            return;
        }
        let h = fxhash(&(self.seed, self.cases, self.counters.get("evaluations").copied().unwrap_or(0)));
        if self.samples.len() < 2 || h % 4099 == 0 {
            self.samples.push(descr());
        }
    }
    pub fn violation(&mut self, key: String, what: String, replay: Value) {
        self.nviol += 1;
        if self.violations.len() < MAX_VIOLATIONS_KEPT && !self.violations.iter().any(|v| v.key == key) {
            // explanations can quote whole formulas or list families: keep them readable
            let what = if what.chars().count() > 6000 { format!("{} ... [{} more characters]", what.chars().take(6000).collect::<String>(), what.chars().count() - 6000) } else { what };
            self.violations.push(Violation { key, what, replay });
        }
    }
    pub fn note(&mut self, s: String) {
        if !self.notes.contains(&s) {
            self.notes.push(s);
        }
    }
    pub fn cap_hit(&mut self, s: String) {
        self.capped = true;
        self.note(s);
    }
    pub fn thorough(&self) -> bool {
        self.tier.thorough()
    }
    fn to_json(&self) -> Value {
        json!({
            "counters": self.counters,
            "globals": self.globals,
            "samples": self.samples,
            "violations": self.violations.iter().map(|v| json!({"key": v.key, "what": v.what, "replay": v.replay})).collect::<Vec<_>>(),
            "nviol": self.nviol,
            "notes": self.notes,
            "capped": self.capped,
            "cases": self.cases,
        })
    }
}

/// Run `f` catching panics; the panic message is returned as Err.
pub fn guarded<T>(f: impl FnOnce() -> T) -> Result<T, String> {
    match std::panic::catch_unwind(std::panic::AssertUnwindSafe(f)) {
        Ok(v) => Ok(v),
        Err(e) => Err(if let Some(s) = e.downcast_ref::<&str>() {
            s.to_string()
        } else if let Some(s) = e.downcast_ref::<String>() {
            s.clone()
        } else {
            "panic (non-string payload)".to_string()
        }),
    }
}

pub fn verif_dir() -> PathBuf {
    std::env::var("VERIF_DIR").map(PathBuf::from).unwrap_or_else(|_| PathBuf::from("/verif"))
}
pub fn tmp_dir() -> PathBuf {
    let p = verif_dir().join(".build").join("tmp");
    let _ = std::fs::create_dir_all(&p);
    p
}
pub fn bin_dir() -> PathBuf {
    std::env::var("VCHECK_BIN_DIR").map(PathBuf::from).unwrap_or_else(|_| verif_dir().join(".build/repo/release"))
}

pub fn seed_from_env() -> u64 {
    std::env::var("VERIF_SEED").ok().and_then(|s| s.parse::<i64>().ok()).map(|x| x as u64).unwrap_or(0)
}

// ---------------------------------------------------------------------------------------
// worker side

/// panics of the code under test are caught and judged by the engines; the first few
/// messages still go to the worker's stderr log so that an uncaught one can be diagnosed
fn quiet_panic_hook() {
    static SHOWN: std::sync::atomic::AtomicUsize = std::sync::atomic::AtomicUsize::new(0);
    std::panic::set_hook(Box::new(|info| {
        if SHOWN.fetch_add(1, std::sync::atomic::Ordering::Relaxed) < 40 {
            eprintln!("[panic] {info}");
        }
    }));
}

pub fn worker_main(engine: &Engine, tier: Tier, shard: u64, nshards: u64, out: &Path) {
    quiet_panic_hook();
    let mut ctx = Ctx::new(engine.prop, tier, seed_from_env(), shard, nshards);
    (engine.run)(&mut ctx);
    write_worker_result(&ctx, out);
}

pub fn replay_worker_main(engine: &Engine, file: &Path, out: &Path) {
    quiet_panic_hook();
    let mut ctx = Ctx::new(engine.prop, Tier::Quick, seed_from_env(), 0, 1);
    ctx.replaying = true;
    let mut s = String::new();
    std::fs::File::open(file).and_then(|mut f| f.read_to_string(&mut s)).unwrap_or_else(|e| {
        eprintln!("cannot read replay file {}: {e}", file.display());
        std::process::exit(2)
    });
    let v: Value = serde_json::from_str(&s).unwrap_or_else(|e| {
        eprintln!("replay file is not JSON: {e}");
        std::process::exit(2)
    });
    let case = v.get("replay").cloned().unwrap_or(v);
    (engine.replay)(&mut ctx, &case);
    write_worker_result(&ctx, out);
}

fn write_worker_result(ctx: &Ctx, out: &Path) {
    let mut bytes = Vec::with_capacity(ctx.distinct.len() * 8);
    let mut hs: Vec<u64> = ctx.distinct.iter().copied().collect();
    hs.sort_unstable();
    for h in hs {
        bytes.extend_from_slice(&h.to_le_bytes());
    }
    std::fs::write(out.with_extension("distinct"), bytes).expect("write distinct file");
    std::fs::write(out, ctx.to_json().to_string()).expect("write worker result");
}

// ---------------------------------------------------------------------------------------
// parent side

struct WorkerOutcome {
    result: Option<Value>,
    distinct: Vec<u64>,
    status: String,
    ok: bool,
}

fn spawn_worker(exe: &Path, args: &[String], trace: Option<&Path>) -> std::process::Child {
    let mut c = Command::new(exe);
    // the code under test writes diagnostics to stderr (e.g. `omitted choice ..`): keep them
    // out of the check's output; the file is shown when a worker fails
    let errlog = tmp_dir().join(format!("worker-{}.stderr", args.iter().take(5).cloned().collect::<Vec<_>>().join("-").replace('/', "_")));
    let errfile = std::fs::File::create(&errlog).map(Stdio::from).unwrap_or_else(|_| Stdio::null());
    c.args(args).stdin(Stdio::null()).stdout(Stdio::inherit()).stderr(errfile);
    if let Some(t) = trace {
        c.env("VCHECK_TRACE", t);
    } else {
        c.env_remove("VCHECK_TRACE");
    }
    c.spawn().expect("cannot spawn worker")
}

fn wait_all(children: &mut [(std::process::Child, PathBuf)], deadline: Instant) -> Vec<WorkerOutcome> {
    let mut done: Vec<Option<WorkerOutcome>> = (0..children.len()).map(|_| None).collect();
    loop {
        let mut pending = false;
        for (i, (ch, out)) in children.iter_mut().enumerate() {
            if done[i].is_some() {
                continue;
            }
            match ch.try_wait() {
                Ok(Some(st)) => {
                    let ok = st.success();
                    let result = if ok { std::fs::read_to_string(&*out).ok().and_then(|s| serde_json::from_str(&s).ok()) } else { None };
                    let distinct = if ok { read_distinct(&out.with_extension("distinct")) } else { vec![] };
                    let ok = ok && result.is_some();
                    done[i] = Some(WorkerOutcome { result, distinct, status: format!("{st}"), ok });
                }
                Ok(None) => {
                    if Instant::now() > deadline {
                        let _ = ch.kill();
                        let _ = ch.wait();
                        done[i] = Some(WorkerOutcome { result: None, distinct: vec![], status: "timed out (killed)".into(), ok: false });
                    } else {
                        pending = true;
                    }
                }
                Err(e) => {
                    done[i] = Some(WorkerOutcome { result: None, distinct: vec![], status: format!("wait error {e}"), ok: false });
                }
            }
        }
        if !pending {
            break;
        }
        std::thread::sleep(Duration::from_millis(20));
    }
    done.into_iter().map(|d| d.expect("outcome")).collect()
}

fn read_distinct(p: &Path) -> Vec<u64> {
    let b = std::fs::read(p).unwrap_or_default();
    b.chunks_exact(8).map(|c| u64::from_le_bytes([c[0], c[1], c[2], c[3], c[4], c[5], c[6], c[7]])).collect()
}

pub struct Known {
    pub known: Vec<(String, String, String)>, // property, key, what
}

pub fn load_known() -> Known {
    let p = verif_dir().join("known_findings.json");
    let mut known = vec![];
    if let Ok(s) = std::fs::read_to_string(&p) {
        match serde_json::from_str::<Value>(&s) {
            Ok(v) => {
                if let Some(a) = v.get("known").and_then(Value::as_array) {
                    for e in a {
                        let g = |k: &str| e.get(k).and_then(Value::as_str).unwrap_or("").to_string();
                        known.push((g("property"), g("key"), g("what")));
                    }
                }
            }
            Err(e) => {
                eprintln!("known_findings.json is not valid JSON: {e}");
                std::process::exit(2);
            }
        }
    }
    Known { known }
}

fn deadline_for(tier: Tier) -> Duration {
    let secs = std::env::var("VCHECK_DEADLINE_S").ok().and_then(|s| s.parse().ok()).unwrap_or(match tier {
        Tier::Quick => 420u64,
        Tier::Thorough => 4 * 3600,
    });
    Duration::from_secs(secs)
}

/// Re-run one shard with tracing to find the case during which the worker died.
fn find_crash_case(exe: &Path, engine: &Engine, tier: Tier, shard: u64, nshards: u64) -> Option<(Value, String)> {
    let tmp = tmp_dir();
    let trace = tmp.join(format!("{}-{}-trace.json", engine.prop, shard));
    let out = tmp.join(format!("{}-{}-traced.json", engine.prop, shard));
    let _ = std::fs::remove_file(&trace);
    let args = vec!["worker".to_string(), engine.prop.to_string(), tier.name().to_string(), shard.to_string(), nshards.to_string(), out.display().to_string()];
    let ch = spawn_worker(exe, &args, Some(&trace));
    let mut v = vec![(ch, out)];
    let o = wait_all(&mut v, Instant::now() + deadline_for(tier));
    if o[0].ok {
        return None; // did not reproduce
    }
    let s = std::fs::read_to_string(&trace).ok()?;
    let case: Value = serde_json::from_str(&s).ok()?;
    Some((case, o[0].status.clone()))
}

pub fn parent_main(engine: &Engine, tier: Tier) -> i32 {
    let t0 = Instant::now();
    let exe = std::env::current_exe().expect("current_exe");
    let ncpu = std::thread::available_parallelism().map(|n| n.get() as u64).unwrap_or(4);
    let nshards = std::env::var("VCHECK_SHARDS").ok().and_then(|s| s.parse().ok()).unwrap_or(ncpu).min(engine.max_shards).max(1);
    let tmp = tmp_dir();
    let mut children = vec![];
    for shard in 0..nshards {
        let out = tmp.join(format!("{}-{}-{}.json", engine.prop, tier.name(), shard));
        let _ = std::fs::remove_file(&out);
        let args = vec!["worker".to_string(), engine.prop.to_string(), tier.name().to_string(), shard.to_string(), nshards.to_string(), out.display().to_string()];
        children.push((spawn_worker(&exe, &args, None), out));
    }
    let outcomes = wait_all(&mut children, Instant::now() + deadline_for(tier));

    let mut counters: BTreeMap<String, u64> = BTreeMap::new();
    let mut globals: BTreeMap<String, u64> = BTreeMap::new();
    let mut distinct: FxHashSet<u64> = FxHashSet::default();
    let mut samples: Vec<Value> = vec![];
    let mut violations: Vec<Violation> = vec![];
    let mut nviol = 0u64;
    let mut notes: Vec<String> = vec![];
    let mut capped = false;
    let mut machinery_failure = false;

    for (shard, o) in outcomes.iter().enumerate() {
        if !o.ok {
            eprintln!("[{}] worker {} failed: {}", engine.prop, shard, o.status);
            let log = tmp_dir().join(format!("worker-worker-{}-{}-{}-{}.stderr", engine.prop, tier.name(), shard, nshards));
            if let Ok(t) = std::fs::read_to_string(&log) {
                for l in t.lines().rev().take(6).collect::<Vec<_>>().into_iter().rev() {
                    eprintln!("    | {l}");
                }
            }
            // a worker died: locate the case, confirm it reproduces in isolation
            match find_crash_case(&exe, engine, tier, shard as u64, nshards) {
                Some((case, status)) => {
                    let rp = tmp.join(format!("{}-crashcase-{}.json", engine.prop, shard));
                    let _ = std::fs::write(&rp, json!({"replay": case}).to_string());
                    let (code, _) = run_replay_once(&exe, engine, &rp);
                    if code == ReplayCode::Crashed {
                        nviol += 1;
                        violations.push(Violation {
                            key: format!("crash:{}", case),
                            what: format!("the code under test aborted or did not terminate ({status}) on this case"),
                            replay: case,
                        });
                    } else {
                        eprintln!("[{}] worker {} died ({}) but the last traced case does not reproduce the crash in isolation: machinery failure", engine.prop, shard, status);
                        machinery_failure = true;
                    }
                }
                None => {
                    eprintln!("[{}] worker {} died and the crash did not reproduce under tracing: machinery failure", engine.prop, shard);
                    machinery_failure = true;
                }
            }
            capped = true;
            notes.push(format!("worker {shard} did not complete ({})", o.status));
            continue;
        }
        let r = o.result.as_ref().expect("result");
        if let Some(m) = r.get("counters").and_then(Value::as_object) {
            for (k, v) in m {
                *counters.entry(k.clone()).or_insert(0) += v.as_u64().unwrap_or(0);
            }
        }
        if let Some(m) = r.get("globals").and_then(Value::as_object) {
            for (k, v) in m {
                let v = v.as_u64().unwrap_or(0);
                if let Some(old) = globals.get(k) {
                    if *old != v {
                        eprintln!("[{}] shards disagree on global {k}: {old} vs {v}: machinery failure", engine.prop);
                        machinery_failure = true;
                    }
                }
                globals.insert(k.clone(), v);
            }
        }
        distinct.extend(o.distinct.iter().copied());
        if let Some(a) = r.get("samples").and_then(Value::as_array) {
            for s in a {
                if samples.len() < 16 {
                    samples.push(s.clone());
                }
            }
        }
        nviol += r.get("nviol").and_then(Value::as_u64).unwrap_or(0);
        if let Some(a) = r.get("violations").and_then(Value::as_array) {
            for v in a {
                let key = v["key"].as_str().unwrap_or("").to_string();
                if !violations.iter().any(|x| x.key == key) {
                    violations.push(Violation { key, what: v["what"].as_str().unwrap_or("").to_string(), replay: v["replay"].clone() });
                }
            }
        }
        if let Some(a) = r.get("notes").and_then(Value::as_array) {
            for n in a {
                let n = n.as_str().unwrap_or("").to_string();
                if !notes.contains(&n) {
                    notes.push(n);
                }
            }
        }
        capped |= r.get("capped").and_then(Value::as_bool).unwrap_or(false);
    }
    // clean worker files
    for (_, out) in &children {
        let _ = std::fs::remove_file(out);
        let _ = std::fs::remove_file(out.with_extension("distinct"));
    }

    // known findings
    let known = load_known();
    let mut unlisted: Vec<&Violation> = vec![];
    let mut listed = 0u64;
    violations.sort_by(|a, b| (a.key.len(), &a.key).cmp(&(b.key.len(), &b.key)));
    for v in &violations {
        if let Some((_, _, what)) = known.known.iter().find(|(p, k, _)| p == engine.prop && *k == v.key) {
            println!("KNOWN-FINDING: property={} {} [{}]", engine.prop, what, v.key);
            listed += 1;
        } else {
            unlisted.push(v);
        }
    }
    let replay_dir = verif_dir().join("replays");
    let _ = std::fs::create_dir_all(&replay_dir);
    for (i, v) in unlisted.iter().enumerate() {
        if i >= 25 {
            break;
        }
        let path = replay_dir.join(format!("{}-{:016x}.json", engine.prop, fxhash(&v.key)));
        let body = json!({"property": engine.prop, "key": v.key, "what": v.what, "replay": v.replay});
        let _ = std::fs::write(&path, serde_json::to_string_pretty(&body).unwrap_or_default());
        {
            println!("VIOLATION property={} replay={}", engine.prop, path.display());
            println!("  what: {}", v.what);
            println!("  case: {}", v.key);
        }
    }
    if unlisted.len() > 5 {
        // group by the shape of the complaint so that families are visible at a glance
        let mut classes: BTreeMap<String, (u64, String)> = BTreeMap::new();
        for v in &unlisted {
            let cls: String = v.what.chars().map(|c| if c.is_ascii_digit() { '#' } else { c }).take(70).collect();
            let e = classes.entry(cls).or_insert((0, v.key.clone()));
            e.0 += 1;
        }
        for (c, (n, ex)) in &classes {
            println!("  class x{n}: {c} ... e.g. {ex}");
        }
    }
    if unlisted.len() > 25 {
        println!("  ... and {} more distinct violating cases ({} violating checks in total)", unlisted.len() - 25, nviol);
    }

    // evidence
    let wall = t0.elapsed().as_secs_f64();
    let evaluations = counters.get("evaluations").copied().unwrap_or(0);
    let mut cov = Map::new();
    if engine.level == "model_checking" {
        let states = globals.get("states").copied().unwrap_or(0) + counters.get("states").copied().unwrap_or(0);
        let transitions = counters.get("transitions").copied().unwrap_or(0);
        cov.insert("states".into(), json!(states));
        cov.insert("transitions".into(), json!(transitions));
        cov.insert("traces_validated_against_impl".into(), json!(transitions + evaluations));
    }
    cov.insert("evaluations".into(), json!(evaluations + counters.get("transitions").copied().unwrap_or(0)));
    let ndistinct = distinct.len() as u64 + counters.get("distinct_by_construction").copied().unwrap_or(0);
    cov.insert("distinct_nontrivial".into(), json!(ndistinct));
    cov.insert("rule".into(), json!(engine.rule));
    if samples.is_empty() {
        samples.push(json!("(no case was executed)"));
    }
    cov.insert("samples".into(), Value::Array(samples));
    cov.insert("exhaustive".into(), json!(!capped));
    cov.insert("counters".into(), json!(counters));
    cov.insert("globals".into(), json!(globals));
    cov.insert("workers".into(), json!(nshards));
    if !notes.is_empty() {
        cov.insert("notes".into(), json!(notes));
    }
    cov.insert("known_findings_matched".into(), json!(listed));
    let ev = json!({
        "property_id": engine.prop,
        "tier": tier.name(),
        "seed": seed_from_env() as i64,
        "level": engine.level,
        "coverage": Value::Object(cov),
        "assumptions": engine.assumptions,
        "wall_s": (wall * 1000.0).round() / 1000.0,
        "violations": unlisted.len(),
    });
    let evdir = verif_dir().join("evidence");
    let _ = std::fs::create_dir_all(&evdir);
    let evpath = evdir.join(format!("{}.json", engine.prop));
    let tmpev = evdir.join(format!("{}.json.tmp", engine.prop));
    std::fs::write(&tmpev, serde_json::to_string_pretty(&ev).unwrap_or_default()).expect("write evidence");
    std::fs::rename(&tmpev, &evpath).expect("rename evidence");

    let summary: Vec<String> = counters.iter().map(|(k, v)| format!("{k}={v}")).chain(globals.iter().map(|(k, v)| format!("{k}={v}"))).collect();
    println!(
        "[{}] {} tier: {} ; distinct={} ; exhaustive={} ; violations={} known={} ; {:.1}s",
        engine.prop,
        tier.name(),
        summary.join(" "),
        ndistinct,
        !capped,
        unlisted.len(),
        listed,
        wall
    );
    for n in &notes {
        println!("[{}] note: {}", engine.prop, n);
    }
    if !unlisted.is_empty() {
        1
    } else if machinery_failure {
        2
    } else {
        0
    }
}

#[derive(PartialEq, Eq, Debug)]
enum ReplayCode {
    Clean,
    Violations,
    Crashed,
}

fn run_replay_once(exe: &Path, engine: &Engine, file: &Path) -> (ReplayCode, Option<Value>) {
    let out = tmp_dir().join(format!("{}-replay-{}.json", engine.prop, std::process::id()));
    let _ = std::fs::remove_file(&out);
    let args = vec!["replay-worker".to_string(), engine.prop.to_string(), file.display().to_string(), out.display().to_string()];
    let ch = spawn_worker(exe, &args, None);
    let mut v = vec![(ch, out.clone())];
    let limit = std::env::var("VCHECK_REPLAY_DEADLINE_S").ok().and_then(|s| s.parse().ok()).unwrap_or(120u64);
    let o = wait_all(&mut v, Instant::now() + Duration::from_secs(limit));
    let _ = std::fs::remove_file(&out);
    let _ = std::fs::remove_file(out.with_extension("distinct"));
    if !o[0].ok {
        return (ReplayCode::Crashed, None);
    }
    let r = o[0].result.clone();
    let n = r.as_ref().and_then(|r| r.get("nviol")).and_then(Value::as_u64).unwrap_or(0);
    (if n > 0 { ReplayCode::Violations } else { ReplayCode::Clean }, r)
}

/// `check <ID> --replay <file>`: run the recorded case twice in fresh processes, demand
/// identical observations, exit 1 when the violation reproduces.
pub fn replay_main(engine: &Engine, file: &Path) -> i32 {
    let exe = std::env::current_exe().expect("current_exe");
    let (c1, r1) = run_replay_once(&exe, engine, file);
    let (c2, r2) = run_replay_once(&exe, engine, file);
    let v1 = r1.as_ref().map(|r| r["violations"].clone());
    // observations are compared by the violated cases (keys); the free-text explanation may
    // quote a panic message of the binary, which contains a thread id
    let keys = |r: &Option<Value>| -> Vec<String> { r.as_ref().and_then(|r| r["violations"].as_array().map(|a| a.iter().map(|v| v["key"].as_str().unwrap_or("").to_string()).collect())).unwrap_or_default() };
    if c1 != c2 || keys(&r1) != keys(&r2) {
        println!("replay diverged between two runs: {:?} vs {:?} (non-determinism: machinery failure)", c1, c2);
        return 2;
    }
    match c1 {
        ReplayCode::Clean => {
            println!("replay: no violation on the current tree");
            0
        }
        ReplayCode::Crashed => {
            println!("replay: the code under test aborted / did not terminate on this case (twice)");
            println!("VIOLATION property={} replay={}", engine.prop, file.display());
            1
        }
        ReplayCode::Violations => {
            if let Some(a) = v1.as_ref().and_then(Value::as_array) {
                for v in a {
                    println!("replay: {} -- {}", v["key"].as_str().unwrap_or(""), v["what"].as_str().unwrap_or(""));
                }
            }
            println!("VIOLATION property={} replay={}", engine.prop, file.display());
            1
        }
    }
}
