//! Function spaces held as REAL diagrams: all Boolean functions over k ordered variables,
//! each represented by a handle the real engine produced. Used as operand supply and as
//! the state set of the semantic closure (DESIGN §1).

use crate::refl::{full_mask, var_tt};
use crate::robdd;
use rsbdd::bdd::{BDDEnv, BDD};
use rsbdd::BDDSymbol;
use std::rc::Rc;

pub struct Space<S: BDDSymbol> {
    pub env: Rc<BDDEnv<S>>,
    pub syms: Vec<S>,
    pub k: usize,
    pub full: u64,
    /// handle per truth table (index = tt), None if not (yet) present
    pub by_tt: Vec<Option<Rc<BDD<S>>>>,
    /// truth tables in order of discovery / construction
    pub order: Vec<u64>,
}

impl<S: BDDSymbol> Space<S> {
    pub fn empty(syms: &[S]) -> Self {
        let k = syms.len();
        assert!(k <= 6, "truth tables are u64: at most 6 variables");
        // the table indexed by truth table is only materialised for k <= 4; larger spaces are
        // used through tt() / canon() / intern() with handles kept by the caller
        let by_tt = if k <= 4 { vec![None; 1usize << (1usize << k)] } else { vec![] };
        Space { env: Rc::new(BDDEnv::new()), syms: syms.to_vec(), k, full: full_mask(k), by_tt, order: vec![] }
    }
    pub fn nfun(&self) -> usize {
        self.by_tt.len()
    }
    pub fn pos(&self, s: &S) -> Option<usize> {
        self.syms.iter().position(|x| x == s)
    }
    pub fn tt(&self, b: &BDD<S>) -> Result<u64, String> {
        robdd::tt_of(b, self.k, &|s| self.pos(s))
    }
    pub fn canon(&self, tt: u64) -> Rc<BDD<S>> {
        robdd::canon(tt, &self.syms)
    }
    pub fn get(&self, tt: u64) -> Rc<BDD<S>> {
        self.by_tt[tt as usize].clone().unwrap_or_else(|| panic!("machinery: function {tt:#x} not in the space"))
    }
    pub fn has(&self, tt: u64) -> bool {
        self.by_tt[tt as usize].is_some()
    }
    pub fn add(&mut self, tt: u64, h: Rc<BDD<S>>) -> bool {
        if self.by_tt[tt as usize].is_none() {
            self.by_tt[tt as usize] = Some(h);
            self.order.push(tt);
            true
        } else {
            false
        }
    }
    pub fn var_tt(&self, i: usize) -> u64 {
        var_tt(self.k, i)
    }

    /// intern canon(f) bottom-up through the engine's public node constructor `mk_choice`
    /// (no connective is involved); returns Err when the engine's node differs from canon
    pub fn intern(&self, b: &BDD<S>) -> Rc<BDD<S>> {
        match b {
            BDD::True => self.env.mk_const(true),
            BDD::False => self.env.mk_const(false),
            BDD::Choice(t, v, f) => {
                let t = self.intern(t);
                let f = self.intern(f);
                self.env.mk_choice(t, v.clone(), f)
            }
        }
    }

    /// all 2^(2^k) functions, each interned from its canonical form
    pub fn by_interning(syms: &[S]) -> Result<Self, String> {
        let mut sp = Self::empty(syms);
        for tt in 0..sp.nfun() as u64 {
            let c = sp.canon(tt);
            let h = crate::runner::guarded(|| sp.intern(&c)).map_err(|p| format!("mk_choice/mk_const panicked while building function {tt:#x}: {p}"))?;
            if h != c {
                return Err(format!("mk_choice did not return the node it was asked for: function {tt:#x}: got {}, wanted {}", robdd::show(&h), robdd::show(&c)));
            }
            sp.add(tt, h);
        }
        Ok(sp)
    }

    /// all functions as plain diagrams that were never interned in any environment (what a
    /// caller gets from `BDD::from`, from another environment, or builds by hand); the
    /// space's own environment stays fresh
    pub fn by_foreign(syms: &[S]) -> Self {
        let mut sp = Self::empty(syms);
        for tt in 0..sp.nfun() as u64 {
            let c = sp.canon(tt);
            sp.add(tt, c);
        }
        sp
    }
}
