//! Exhaustive enumerators: ASTs by node count over an alphabet, sequences over an alphabet.

use crate::refl::{Ast, Bin, Cmp};

#[derive(Clone, Debug, Default)]
pub struct Alpha {
    pub leaves: Vec<Ast>,
    pub not: bool,
    pub bins: Vec<Bin>,
    pub ite: bool,
    /// (is_exists, variable list)
    pub quants: Vec<(bool, Vec<String>)>,
    /// (name, is_gfp)
    pub fps: Vec<(String, bool)>,
    pub cmps: Vec<Cmp>,
    /// constants for list-vs-constant comparisons (empty = none)
    pub nums: Vec<String>,
    /// list-vs-list comparisons
    pub cv: bool,
    /// maximum number of operands of a counting node (both lists together)
    pub max_list: usize,
}

pub struct Gen {
    pub alpha: Alpha,
    /// memo[n] = all ASTs with exactly n nodes (memo[0] empty)
    pub memo: Vec<Vec<Ast>>,
}

fn for_each_tuple(memo: &[Vec<Ast>], m: usize, total: usize, cur: &mut Vec<Ast>, f: &mut dyn FnMut(&[Ast])) {
    if m == 0 {
        if total == 0 {
            f(cur);
        }
        return;
    }
    if total < m {
        return;
    }
    for s in 1..=(total - (m - 1)) {
        if s >= memo.len() {
            break;
        }
        for a in &memo[s] {
            cur.push(a.clone());
            for_each_tuple(memo, m - 1, total - s, cur, f);
            cur.pop();
        }
    }
}

impl Gen {
    pub fn new(alpha: Alpha) -> Gen {
        Gen { alpha, memo: vec![vec![]] }
    }

    /// all ASTs of exactly n nodes, materialised
    pub fn level(&mut self, n: usize) -> &Vec<Ast> {
        while self.memo.len() <= n {
            let k = self.memo.len();
            let mut v = vec![];
            Self::compose(&self.alpha, &self.memo, k, &mut |a| v.push(a));
            self.memo.push(v);
        }
        &self.memo[n]
    }

    /// call f on every AST of exactly n nodes without materialising level n
    pub fn stream(&mut self, n: usize, f: &mut dyn FnMut(Ast)) {
        if n >= 1 {
            self.level(n - 1);
        }
        if n < self.memo.len() {
            for a in &self.memo[n] {
                f(a.clone());
            }
            return;
        }
        Self::compose(&self.alpha, &self.memo, n, f);
    }

    pub fn count(&mut self, n: usize) -> u64 {
        let mut c = 0u64;
        self.stream(n, &mut |_| c += 1);
        c
    }

    fn compose(al: &Alpha, memo: &[Vec<Ast>], n: usize, f: &mut dyn FnMut(Ast)) {
        if n == 0 {
            return;
        }
        if n == 1 {
            for l in &al.leaves {
                f(l.clone());
            }
        }
        // unary: not, quantifiers, fixed points
        if n >= 2 {
            for b in &memo[n - 1] {
                if al.not {
                    f(Ast::Not(Box::new(b.clone())));
                }
                for (ex, vs) in &al.quants {
                    f(Ast::Q(*ex, vs.clone(), Box::new(b.clone())));
                }
                for (x, g) in &al.fps {
                    f(Ast::Fp(x.clone(), *g, Box::new(b.clone())));
                }
            }
        }
        // binary
        if n >= 3 && !al.bins.is_empty() {
            for ls in 1..=(n - 2) {
                let rs = n - 1 - ls;
                for l in &memo[ls] {
                    for r in &memo[rs] {
                        for op in &al.bins {
                            f(Ast::Bin(*op, Box::new(l.clone()), Box::new(r.clone())));
                        }
                    }
                }
            }
        }
        // ite
        if n >= 4 && al.ite {
            for cs in 1..=(n - 3) {
                for ts in 1..=(n - 2 - cs) {
                    let es = n - 1 - cs - ts;
                    for c in &memo[cs] {
                        for t in &memo[ts] {
                            for e in &memo[es] {
                                f(Ast::Ite(Box::new(c.clone()), Box::new(t.clone()), Box::new(e.clone())));
                            }
                        }
                    }
                }
            }
        }
        // counting: m operands in total with n-1 nodes in total
        if !al.cmps.is_empty() {
            for m in 0..=al.max_list {
                let mut cur = vec![];
                for_each_tuple(memo, m, n - 1, &mut cur, &mut |ops: &[Ast]| {
                    for op in &al.cmps {
                        for k in &al.nums {
                            f(Ast::CC(*op, ops.to_vec(), k.clone()));
                        }
                        if al.cv {
                            for split in 0..=m {
                                f(Ast::CV(*op, ops[..split].to_vec(), ops[split..].to_vec()));
                            }
                        }
                    }
                });
            }
        }
    }
}

/// odometer over sequences of length exactly `len` with `k` symbols; calls f(index, digits)
pub fn for_each_seq(k: usize, len: usize, f: &mut dyn FnMut(u64, &[usize])) {
    let mut d = vec![0usize; len];
    let mut idx = 0u64;
    loop {
        f(idx, &d);
        idx += 1;
        let mut i = 0;
        loop {
            if i == len {
                return;
            }
            d[i] += 1;
            if d[i] < k {
                break;
            }
            d[i] = 0;
            i += 1;
        }
    }
}

/// all permutations of 0..n
pub fn permutations(n: usize) -> Vec<Vec<usize>> {
    fn go(cur: &mut Vec<usize>, used: &mut Vec<bool>, n: usize, out: &mut Vec<Vec<usize>>) {
        if cur.len() == n {
            out.push(cur.clone());
            return;
        }
        for i in 0..n {
            if !used[i] {
                used[i] = true;
                cur.push(i);
                go(cur, used, n, out);
                cur.pop();
                used[i] = false;
            }
        }
    }
    let mut out = vec![];
    go(&mut vec![], &mut vec![false; n], n, &mut out);
    out
}

/// all sequences (with repeats) of length 0..=maxlen over 0..k
pub fn lists_upto(k: usize, maxlen: usize) -> Vec<Vec<usize>> {
    let mut out = vec![];
    for len in 0..=maxlen {
        for_each_seq(k, len, &mut |_, d| out.push(d.to_vec()));
    }
    out
}

pub fn full_alpha() -> Alpha {
    let s = |x: &str| x.to_string();
    Alpha {
        leaves: vec![Ast::True, Ast::False, Ast::var("a"), Ast::var("b"), Ast::var("X")],
        not: true,
        bins: crate::refl::ALL_BINS.to_vec(),
        ite: true,
        quants: vec![
            (true, vec![s("a")]),
            (true, vec![s("a"), s("b")]),
            (true, vec![s("X")]),
            (false, vec![s("a")]),
            (false, vec![s("a"), s("b")]),
            (false, vec![s("X")]),
        ],
        fps: vec![(s("X"), false), (s("X"), true)],
        cmps: crate::refl::ALL_CMPS.to_vec(),
        nums: vec![s("0"), s("1"), s("2")],
        cv: true,
        max_list: 3,
    }
}

/// Every node kind in every child position: all ASTs of depth <= 2 whose inner nodes are
/// one representative per node kind over leaves a, b, c (plus X under fixed points). This is
/// bounded by DEPTH rather than by size, so e.g. `if a then b else c | d`-shaped sentences
/// (6 nodes) are present although the size-bounded enumerations stop earlier.
pub fn depth2_family() -> Vec<Ast> {
    use crate::refl::Cmp;
    let a = || Ast::var("a");
    let b = || Ast::var("b");
    let c = || Ast::var("c");
    // depth-<=1 forms (leaf children only)
    let forms: Vec<Ast> = vec![
        a(),
        Ast::True,
        Ast::not(a()),
        Ast::bin(Bin::Or, a(), b()),
        Ast::bin(Bin::ImpliesInv, b(), c()),
        Ast::ite(a(), b(), c()),
        Ast::q(true, &["a"], b()),
        Ast::q(false, &["b", "c"], a()),
        Ast::fp("X", false, Ast::var("X")),
        Ast::CC(Cmp::AtMost, vec![a(), b()], "1".into()),
        Ast::CC(Cmp::Exactly, vec![], "0".into()),
        Ast::CV(Cmp::LessThan, vec![a()], vec![b(), c()]),
    ];
    let mut out: Vec<Ast> = forms.clone();
    for x in &forms {
        out.push(Ast::not(x.clone()));
        out.push(Ast::q(true, &["a", "b"], x.clone()));
        out.push(Ast::q(false, &[], x.clone()));
        out.push(Ast::fp("X", true, x.clone()));
        out.push(Ast::CC(Cmp::AtLeast, vec![x.clone()], "1".into()));
        for y in &forms {
            out.push(Ast::bin(Bin::And, x.clone(), y.clone()));
            out.push(Ast::bin(Bin::ImpliesInv, x.clone(), y.clone()));
            out.push(Ast::CC(Cmp::MoreThan, vec![x.clone(), y.clone()], "1".into()));
            out.push(Ast::CV(Cmp::AtMost, vec![x.clone()], vec![y.clone()]));
            out.push(Ast::CV(Cmp::Exactly, vec![x.clone(), y.clone()], vec![]));
            for z in &forms {
                out.push(Ast::ite(x.clone(), y.clone(), z.clone()));
            }
        }
    }
    out
}
