//! Semantic state-space closure (DESIGN §1): states = Boolean functions over k variables
//! held as real diagrams, transitions = operators executed by the real engine (through
//! `BDDEnv<usize>`'s API or through the real evaluator `ParsedFormula::eval`).

use crate::conv::{impl_bin, impl_cmp, sym};
use crate::refl::{bin_tt, cmp_holds, exists_tt, forall_tt, Bin, Cmp, ALL_BINS, ALL_CMPS};
use crate::robdd;
use crate::runner::{guarded, Ctx};
use crate::space::Space;
use rsbdd::bdd::BDD;
use rsbdd::parser::{ParsedFormula, QuantifierType, SymbolicBDD};
use rsbdd::NamedSymbol;
use serde_json::{json, Value};
use std::rc::Rc;

#[derive(Debug, Clone, Copy)]
pub struct Oracle {
    /// judge the truth table of the result (C01, C03)
    pub semantic: bool,
    /// judge literal equality with the independently built reduced ordered diagram,
    /// hash agreement and orderedness/reducedness (C02)
    pub canonical: bool,
}

#[derive(Debug, Clone, Copy, PartialEq, Eq, Hash)]
pub enum ApiOp {
    Not,
    Bin(Bin),
    Ite,
}

impl ApiOp {
    pub fn name(&self) -> String {
        match self {
            ApiOp::Not => "not".into(),
            ApiOp::Bin(b) => format!("{:?}", b).to_lowercase(),
            ApiOp::Ite => "ite".into(),
        }
    }
    pub fn parse(s: &str) -> Option<ApiOp> {
        if s == "not" {
            return Some(ApiOp::Not);
        }
        if s == "ite" {
            return Some(ApiOp::Ite);
        }
        ALL_BINS.iter().find(|b| format!("{:?}", b).to_lowercase() == s).map(|b| ApiOp::Bin(*b))
    }
    pub fn arity(&self) -> usize {
        match self {
            ApiOp::Not => 1,
            ApiOp::Bin(_) => 2,
            ApiOp::Ite => 3,
        }
    }
    pub fn expect(&self, t: &[u64], full: u64) -> u64 {
        match self {
            ApiOp::Not => !t[0] & full,
            ApiOp::Bin(b) => bin_tt(*b, t[0], t[1], full),
            ApiOp::Ite => (t[0] & t[1]) | (!t[0] & t[2] & full),
        }
    }
}

pub fn all_api_ops() -> Vec<ApiOp> {
    let mut v = vec![ApiOp::Not];
    v.extend(ALL_BINS.iter().map(|b| ApiOp::Bin(*b)));
    v.push(ApiOp::Ite);
    v
}

pub fn apply_api(sp: &Space<usize>, op: ApiOp, h: &[Rc<BDD<usize>>]) -> Rc<BDD<usize>> {
    apply_env(&sp.env, op, h)
}

pub fn apply_env<S: rsbdd::BDDSymbol>(e: &Rc<rsbdd::bdd::BDDEnv<S>>, op: ApiOp, h: &[Rc<BDD<S>>]) -> Rc<BDD<S>> {
    match op {
        ApiOp::Not => e.not(h[0].clone()),
        ApiOp::Bin(Bin::And) => e.and(h[0].clone(), h[1].clone()),
        ApiOp::Bin(Bin::Or) => e.or(h[0].clone(), h[1].clone()),
        ApiOp::Bin(Bin::Xor) => e.xor(h[0].clone(), h[1].clone()),
        ApiOp::Bin(Bin::Nor) => e.nor(h[0].clone(), h[1].clone()),
        ApiOp::Bin(Bin::Nand) => e.nand(h[0].clone(), h[1].clone()),
        ApiOp::Bin(Bin::Implies) => e.implies(h[0].clone(), h[1].clone()),
        // the API has no inverse implication; `a <= b` is implies(b, a)
        ApiOp::Bin(Bin::ImpliesInv) => e.implies(h[1].clone(), h[0].clone()),
        ApiOp::Bin(Bin::Iff) => e.as_ref().eq(h[0].clone(), h[1].clone()),
        ApiOp::Ite => e.ite(h[0].clone(), h[1].clone(), h[2].clone()),
    }
}

fn api_case(sp: &Space<usize>, how: &str, op: ApiOp, tts: &[u64]) -> Value {
    json!({"part": "api", "syms": sp.syms, "space": how, "op": op.name(), "operands": tts})
}

/// judge one result against the expected truth table under the oracle; returns complaints
pub fn judge<S: rsbdd::BDDSymbol>(sp: &Space<S>, res: &Rc<BDD<S>>, want: u64, oracle: Oracle) -> Vec<String> {
    let mut out = vec![];
    if oracle.semantic {
        match sp.tt(res) {
            Err(e) => out.push(e),
            Ok(t) if t != want => out.push(format!("result denotes {t:#x}, the pointwise definition gives {want:#x} (result {})", robdd::show(res))),
            Ok(_) => {}
        }
    }
    if oracle.canonical {
        let c = sp.canon(want);
        // structure is judged by the harness's own walker; the subject's `==` must agree with it
        let same = robdd::same_small(res, &c);
        if (**res == *c) != same {
            out.push(format!("`==` says {} for {} and {}, which are structurally {}", **res == *c, robdd::show(res), robdd::show(&c), if same { "identical" } else { "different" }));
        }
        if !same {
            out.push(format!("result is not the reduced ordered diagram of its function: got {}, canonical {}", robdd::show(res), robdd::show(&c)));
        } else {
            if res.get_hash() != c.get_hash() || crate::runner::fxhash(res.as_ref()) != crate::runner::fxhash(c.as_ref()) {
                out.push("equal diagrams hash differently".to_string());
            }
            if (want == sp.full) != res.is_true() || (want == 0) != res.is_false() {
                out.push("is_true / is_false disagree with validity / unsatisfiability".to_string());
            }
        }
        if let Err(e) = robdd::is_ordered_reduced(res) {
            out.push(e);
        }
    }
    out
}

pub fn check_api(ctx: &mut Ctx, sp: &Space<usize>, how: &str, op: ApiOp, tts: &[u64], oracle: Oracle, prop_tag: &str) {
    ctx.begin_case(|| api_case(sp, how, op, tts));
    ctx.count("transitions", 1);
    // "transient": the operands are fresh copies that live only for this call (the environment has
    // interned twins of them); the next case's copies reuse their addresses
    let hs: Vec<Rc<BDD<usize>>> = tts.iter().map(|t| if how == "transient" { robdd::deep_copy(&sp.get(*t)) } else { sp.get(*t) }).collect();
    let snaps: Vec<Rc<BDD<usize>>> = if oracle.semantic { hs.iter().map(|h| robdd::deep_copy(h)).collect() } else { vec![] };
    let want = op.expect(tts, sp.full);
    let key = || format!("{prop_tag} api syms={:?}: {}({})", sp.syms, op.name(), tts.iter().map(|t| format!("{t:#x}")).collect::<Vec<_>>().join(", "));
    match guarded(|| apply_api(sp, op, &hs)) {
        Err(p) => ctx.violation(key(), format!("operation panicked: {p}"), api_case(sp, how, op, tts)),
        Ok(res) => {
            let mut complaints = judge(sp, &res, want, oracle);
            if oracle.semantic {
                for (i, (h, s)) in hs.iter().zip(snaps.iter()).enumerate() {
                    if **h != **s {
                        complaints.push(format!("operand {i} was modified by the operation"));
                    }
                }
            }
            if !complaints.is_empty() {
                ctx.violation(key(), complaints.join("; "), api_case(sp, how, op, tts));
            }
            ctx.count("distinct_by_construction", 1);
            ctx.sample(|| json!({"op": op.name(), "operands": tts.iter().map(|t| format!("{t:#x}")).collect::<Vec<_>>(), "result": robdd::show(&res)}));
        }
    }
}

// ---------------------------------------------------------------------------------------
// BDDEnv<NamedSymbol> with ids that differ only above bit 32 (and names that differ): the
// API lets a caller choose any usize id. Everything here compares symbols by (id, name)
// explicitly instead of through the subject's Eq / Ord.

thread_local! {
    /// second symbol set of the sweep: three different ids that share ONE name allocation
    static NW_SHARED_NAME: std::cell::Cell<bool> = const { std::cell::Cell::new(false) };
}

fn nw_syms() -> Vec<NamedSymbol> {
    if NW_SHARED_NAME.with(|c| c.get()) {
        let name = Rc::new("shared".to_string());
        return [3usize, 7, 11].iter().map(|i| NamedSymbol { name: name.clone(), id: *i }).collect();
    }
    #[cfg(target_pointer_width = "64")]
    let ids = [1usize, (1 << 32) + 1, (1 << 40) + 1];
    #[cfg(not(target_pointer_width = "64"))]
    let ids = [1usize, (1 << 16) + 1, (1 << 24) + 1];
    ["p", "q", "r"].iter().zip(ids).map(|(n, i)| sym(n, i)).collect()
}

fn nw_same(a: &BDD<NamedSymbol>, b: &BDD<NamedSymbol>) -> bool {
    match (a, b) {
        (BDD::True, BDD::True) | (BDD::False, BDD::False) => true,
        (BDD::Choice(t1, v1, f1), BDD::Choice(t2, v2, f2)) => v1.id == v2.id && v1.name == v2.name && nw_same(t1, t2) && nw_same(f1, f2),
        _ => false,
    }
}

fn nw_canon(tt: u64, syms: &[NamedSymbol], level: usize, fixed: usize) -> Rc<BDD<NamedSymbol>> {
    if level == syms.len() {
        return Rc::new(if (tt >> fixed) & 1 == 1 { BDD::True } else { BDD::False });
    }
    let t = nw_canon(tt, syms, level + 1, fixed | (1 << level));
    let e = nw_canon(tt, syms, level + 1, fixed);
    if nw_same(&t, &e) {
        t
    } else {
        Rc::new(BDD::Choice(t, syms[level].clone(), e))
    }
}

fn nw_tt(b: &BDD<NamedSymbol>, syms: &[NamedSymbol]) -> Result<u64, String> {
    let mut r = 0u64;
    for a in 0..(1usize << syms.len()) {
        let mut n = b;
        loop {
            match n {
                BDD::True => {
                    r |= 1 << a;
                    break;
                }
                BDD::False => break,
                BDD::Choice(t, v, f) => {
                    let i = syms.iter().position(|s| s.id == v.id && s.name == v.name).ok_or_else(|| format!("diagram mentions unknown variable {}#{}", v.name, v.id))?;
                    n = if (a >> i) & 1 == 1 { t.as_ref() } else { f.as_ref() };
                }
            }
        }
    }
    Ok(r)
}

fn nw_show(b: &BDD<NamedSymbol>) -> String {
    match b {
        BDD::True => "T".into(),
        BDD::False => "F".into(),
        BDD::Choice(t, v, f) => format!("({}#{:#x} ? {} : {})", v.name, v.id, nw_show(t), nw_show(f)),
    }
}

fn nw_intern(env: &Rc<rsbdd::bdd::BDDEnv<NamedSymbol>>, b: &BDD<NamedSymbol>) -> Rc<BDD<NamedSymbol>> {
    match b {
        BDD::True => env.mk_const(true),
        BDD::False => env.mk_const(false),
        BDD::Choice(t, v, f) => {
            let t = nw_intern(env, t);
            let f = nw_intern(env, f);
            env.mk_choice(t, v.clone(), f)
        }
    }
}

fn nw_check(ctx: &mut Ctx, env: &Rc<rsbdd::bdd::BDDEnv<NamedSymbol>>, syms: &[NamedSymbol], op: ApiOp, tts: &[u64], oracle: Oracle, prop_tag: &str) {
    // the sweep shares one environment per worker, so a violation may depend on what that worker
    // computed before: the case records the shard, and a replay re-runs that shard's sequence
    let case = json!({"part": "named-wide", "op": op.name(), "operands": tts, "shard": ctx.shard, "nshards": ctx.nshards, "shared_name": NW_SHARED_NAME.with(|c| c.get())});
    ctx.begin_case(|| case.clone());
    ctx.count("transitions", 1);
    ctx.count("named_wide_ids", 1);
    ctx.count("distinct_by_construction", 1);
    let full = (1u64 << (1 << syms.len())) - 1;
    let key = format!("{prop_tag} api NamedSymbol ids {:?}: {}({})", syms.iter().map(|s| format!("{:#x}", s.id)).collect::<Vec<_>>(), op.name(), tts.iter().map(|t| format!("{t:#x}")).collect::<Vec<_>>().join(", "));
    let r = guarded(|| {
        let hs: Vec<Rc<BDD<NamedSymbol>>> = tts.iter().map(|t| nw_intern(env, &nw_canon(*t, syms, 0, 0))).collect();
        for (h, t) in hs.iter().zip(tts) {
            if !nw_same(h, &nw_canon(*t, syms, 0, 0)) {
                return Err(format!("mk_choice did not build operand {t:#x}: got {}", nw_show(h)));
            }
        }
        Ok(apply_env(env, op, &hs))
    });
    let want = op.expect(tts, full);
    match r {
        Err(p) => ctx.violation(key, format!("operation panicked: {p}"), case),
        Ok(Err(e)) => ctx.violation(key, e, case),
        Ok(Ok(res)) => {
            let mut complaints = vec![];
            if oracle.semantic {
                match nw_tt(&res, syms) {
                    Err(e) => complaints.push(e),
                    Ok(t) if t != want => complaints.push(format!("result denotes {t:#x}, the pointwise definition gives {want:#x} (result {})", nw_show(&res))),
                    Ok(_) => {}
                }
            }
            if oracle.canonical {
                let c = nw_canon(want, syms, 0, 0);
                if !nw_same(&res, &c) {
                    complaints.push(format!("result is not the reduced ordered diagram of its function: got {}, canonical {}", nw_show(&res), nw_show(&c)));
                }
            }
            if !complaints.is_empty() {
                ctx.violation(key, complaints.join("; "), case);
            }
        }
    }
}

/// every unary / binary connective on every operand tuple of F_3 (ite with a constant or
/// variable condition) in a BDDEnv<NamedSymbol> whose ids agree in their low 32 bits
pub fn sweep_named_wide(ctx: &mut Ctx, oracle: Oracle, prop_tag: &str) {
    sweep_named_wide_set(ctx, oracle, prop_tag);
    NW_SHARED_NAME.with(|c| c.set(true));
    sweep_named_wide_set(ctx, oracle, prop_tag);
    NW_SHARED_NAME.with(|c| c.set(false));
}

fn sweep_named_wide_set(ctx: &mut Ctx, oracle: Oracle, prop_tag: &str) {
    let syms = nw_syms();
    let env = Rc::new(rsbdd::bdd::BDDEnv::<NamedSymbol>::new());
    let conds: Vec<u64> = vec![0, 0xff, 0xaa, 0xcc, 0xf0];
    for f in 0..256u64 {
        if !ctx.mine(f) {
            continue;
        }
        nw_check(ctx, &env, &syms, ApiOp::Not, &[f], oracle, prop_tag);
        for g in 0..256u64 {
            for b in ALL_BINS {
                nw_check(ctx, &env, &syms, ApiOp::Bin(b), &[f, g], oracle, prop_tag);
            }
            for &c in &conds {
                nw_check(ctx, &env, &syms, ApiOp::Ite, &[c, f, g], oracle, prop_tag);
            }
        }
    }
}

pub fn replay_named_wide(ctx: &mut Ctx, case: &Value, oracle: Oracle, prop_tag: &str) {
    let (shard, nshards) = (case["shard"].as_u64().unwrap_or(0), case["nshards"].as_u64().unwrap_or(1).max(1));
    let mut c2 = Ctx::new(prop_tag, ctx.tier, ctx.seed, shard, nshards);
    sweep_named_wide(&mut c2, oracle, prop_tag);
    for v in c2.violations {
        if v.replay["op"] == case["op"] && v.replay["operands"] == case["operands"] && v.replay["shared_name"] == case["shared_name"] {
            ctx.violation(v.key, v.what, v.replay);
        }
    }
}

/// Complete pair sweep over F_4 (2^16 x 2^16 operand pairs per connective) with a lean inner
/// loop: the truth table of every result is read by walking the 16 assignments, and (C02) the
/// result is compared with the independently built canonical diagram of its function (pointer
/// first, structure otherwise). Any disagreement — and any panic in a row — is re-judged case by
/// case through `check_api`, which produces the violation record. Operands are compared with a
/// deep copy taken before the row.
/// value of a diagram over usize symbols under an assignment (iterative walk)
pub fn walk_usize(d: &BDD<usize>, a: &dyn Fn(usize) -> bool) -> bool {
    let mut n = d;
    loop {
        match n {
            BDD::True => return true,
            BDD::False => return false,
            BDD::Choice(t, v, e) => n = if a(*v) { t.as_ref() } else { e.as_ref() },
        }
    }
}

/// the assignment family used for diagrams too deep for truth tables: all-false, all-true, and
/// for every variable index i < n: only i true, only i false, the prefix up to i true, and the
/// prefix with every second variable true; `extra` = the two tail variables n and n + 1 run
/// through their four combinations
pub fn deep_assignments(n: usize) -> Vec<Box<dyn Fn(usize) -> bool>> {
    let mut out: Vec<Box<dyn Fn(usize) -> bool>> = vec![];
    for tail in 0..4usize {
        let tv = move |v: usize| if v == n { tail & 1 == 1 } else { tail & 2 == 2 };
        out.push(Box::new(move |v| if v >= n { tv(v) } else { false }));
        out.push(Box::new(move |v| if v >= n { tv(v) } else { true }));
        for i in (0..n).step_by(if n > 200 { 7 } else { 1 }).chain([n.saturating_sub(1), n.saturating_sub(2)]) {
            out.push(Box::new(move |v| if v >= n { tv(v) } else { v == i }));
            out.push(Box::new(move |v| if v >= n { tv(v) } else { v != i }));
            out.push(Box::new(move |v| if v >= n { tv(v) } else { v <= i }));
            out.push(Box::new(move |v| if v >= n { tv(v) } else { v > i }));
        }
    }
    out
}

/// Chains of 100 .. 1600 literals (positive, negative, mixed) joined by one connective and
/// ended by a two-variable tail, as operands of not / implies / eq / xor: the result is judged
/// on the assignment family above against the pointwise definition.
pub fn deep_chain_sweep(ctx: &mut Ctx, prop_tag: &str) {
    let mut idx = 1u64 << 43;
    for n in [100usize, 511, 512, 513, 600, 999, 1000, 1001, 1024, 1500, 1600] {
        for shape in 0..8usize {
            idx += 1;
            if !ctx.mine(idx) {
                continue;
            }
            let case = json!({"part": "deep-chain", "n": n, "shape": shape});
            ctx.begin_case(|| case.clone());
            ctx.count("deep_chain_cases", 1);
            ctx.count("distinct_by_construction", 1);
            let key = format!("{prop_tag} connectives on a chain of {n} literals (shape {shape})");
            let env = rsbdd::bdd::BDDEnv::<usize>::new();
            let r = guarded(|| -> Option<String> {
                let lit = |i: usize| match shape % 4 {
                    0 => env.var(i),
                    1 => env.not(env.var(i)),
                    2 => if i % 2 == 0 { env.var(i) } else { env.not(env.var(i)) },
                    _ => if i % 5 == 4 { env.not(env.var(i)) } else { env.var(i) },
                };
                let tail = env.or(env.var(n), env.not(env.var(n + 1)));
                let conj = shape < 4;
                let f = (0..n).rev().fold(tail, |acc, i| if conj { env.and(lit(i), acc) } else { env.or(lit(i), acc) });
                let g = env.var(n / 2);
                let results = [("not(f)", env.not(f.clone())), ("implies(f, x)", env.implies(f.clone(), g.clone())), ("implies(x, f)", env.implies(g.clone(), f.clone())), ("xor(f, x)", env.xor(f.clone(), g.clone())), ("eq(f, f)", rsbdd::bdd::BDDEnv::eq(&env, f.clone(), f.clone())), ("nand(f, x)", env.nand(f.clone(), g.clone()))];
                for a in deep_assignments(n) {
                    let (vf, vg) = (walk_usize(&f, a.as_ref()), walk_usize(&g, a.as_ref()));
                    let want = [!vf, !vf || vg, !vg || vf, vf != vg, true, !(vf && vg)];
                    for ((name, d), w) in results.iter().zip(want) {
                        if walk_usize(d, a.as_ref()) != w {
                            return Some(format!("{name} evaluates to {} where the pointwise definition gives {w}", !w));
                        }
                    }
                }
                None
            });
            match r {
                Err(p) => ctx.violation(key, format!("panicked: {p}"), case),
                Ok(Some(m)) => ctx.violation(key, m, case),
                Ok(None) => {}
            }
        }
    }
}

/// One representative (the numerically smallest truth table) of every class of four-variable
/// functions under permutation of the inputs, negation of inputs and negation of the output
/// (222 classes): every "shape" a four-variable function can have.
pub fn npn_reps4() -> Vec<u64> {
    let perms = crate::enumerate::permutations(4);
    let mut seen = vec![false; 65536];
    let mut reps = vec![];
    for f in 0..65536u64 {
        if seen[f as usize] {
            continue;
        }
        reps.push(f);
        for p in &perms {
            for neg in 0..16usize {
                let mut g = 0u64;
                for a in 0..16usize {
                    let mut b = 0usize;
                    for (i, &pi) in p.iter().enumerate() {
                        if (a >> i) & 1 == 1 {
                            b |= 1 << pi;
                        }
                    }
                    b ^= neg;
                    if (f >> b) & 1 == 1 {
                        g |= 1 << a;
                    }
                }
                seen[g as usize] = true;
                seen[(!g & 0xffff) as usize] = true;
            }
        }
    }
    reps
}

/// `reps x F_4`: every class representative against every one of the 65 536 functions, in
/// both operand positions, under the given connectives (same lean loop as `pairs4_sweep`)
pub fn reps4_sweep(ctx: &mut Ctx, oracle: Oracle, prop_tag: &str, ops: &[Bin]) {
    let syms = [0usize, 3, 4, 9];
    let sp = match Space::<usize>::by_interning(&syms) {
        Ok(s) => s,
        Err(e) => {
            ctx.violation(format!("{prop_tag} api syms={syms:?}: building operands"), e, json!({"part": "api", "syms": syms, "space": "interned", "op": "not", "operands": [0]}));
            return;
        }
    };
    let reps = npn_reps4();
    ctx.global("npn_classes_k4", reps.len() as u64);
    let canon: Vec<Rc<BDD<usize>>> = (0..65536u64).map(|t| sp.canon(t)).collect();
    let hs: Vec<Rc<BDD<usize>>> = (0..65536u64).map(|t| sp.get(t)).collect();
    for g in 0..65536u64 {
        if !ctx.mine(g) {
            continue;
        }
        for &r in &reps {
            for &b in ops {
                for (x, y) in [(r, g), (g, r)] {
                    let op = ApiOp::Bin(b);
                    let want = bin_tt(b, x, y, sp.full);
                    let ok = guarded(|| {
                        let res = apply_api(&sp, op, &[hs[x as usize].clone(), hs[y as usize].clone()]);
                        (!oracle.semantic || sp.tt(&res) == Ok(want)) && (!oracle.canonical || (robdd::same_small(&canon[want as usize], &res) && *canon[want as usize] == *res && (want == sp.full) == res.is_true() && (want == 0) == res.is_false()))
                    });
                    ctx.count("class_representative_pairs_k4", 1);
                    ctx.count("distinct_by_construction", 1);
                    if ok != Ok(true) {
                        check_api(ctx, &sp, "interned", op, &[x, y], oracle, prop_tag);
                    }
                }
            }
        }
    }
}

/// connectives of the complete pair sweep: by default `and` and `or`; VCHECK_PAIRS4_OPS=all
/// selects the seven binary connectives of the API (`a <= b` is implies with swapped
/// operands), VCHECK_PAIRS4_OPS=and,xor any subset
pub fn pairs4_ops() -> Vec<Bin> {
    let all: Vec<Bin> = ALL_BINS.iter().copied().filter(|b| *b != Bin::ImpliesInv).collect();
    match std::env::var("VCHECK_PAIRS4_OPS") {
        Ok(v) if v == "all" => all,
        Ok(v) => all.into_iter().filter(|b| v.split(',').any(|x| x == format!("{b:?}").to_lowercase())).collect(),
        // default: the two connectives that have a recursion of their own on the current tree
        // (every other one is a composition of these and `not`); all seven take ~80 min
        Err(_) => vec![Bin::And, Bin::Or],
    }
}

pub fn pairs4_sweep(ctx: &mut Ctx, oracle: Oracle, prop_tag: &str, ops: &[Bin], counter: &str) {
    let syms = [0usize, 3, 4, 9];
    let sp = match Space::<usize>::by_interning(&syms) {
        Ok(s) => s,
        Err(e) => {
            ctx.violation(format!("{prop_tag} api syms={syms:?}: building operands"), e, json!({"part": "api", "syms": syms, "space": "interned", "op": "not", "operands": [0]}));
            return;
        }
    };
    let canon: Vec<Rc<BDD<usize>>> = (0..65536u64).map(|t| sp.canon(t)).collect();
    let hs: Vec<Rc<BDD<usize>>> = (0..65536u64).map(|t| sp.get(t)).collect();
    // position of each symbol, for the table walker
    let walk = |b: &BDD<usize>| -> u64 {
        let mut r = 0u64;
        for a in 0..16usize {
            let mut n = b;
            loop {
                match n {
                    BDD::True => {
                        r |= 1 << a;
                        break;
                    }
                    BDD::False => break,
                    BDD::Choice(t, v, f) => {
                        let i = match *v {
                            0 => 0,
                            3 => 1,
                            4 => 2,
                            9 => 3,
                            _ => return u64::MAX,
                        };
                        n = if (a >> i) & 1 == 1 { t.as_ref() } else { f.as_ref() };
                    }
                }
            }
        }
        r
    };
    for f in 0..65536u64 {
        if !ctx.mine(f) {
            continue;
        }
        let snap = robdd::deep_copy(&hs[f as usize]);
        for &b in ops {
            let op = ApiOp::Bin(b);
            let row = guarded(|| {
                let mut bad: Vec<u64> = vec![];
                for g in 0..65536u64 {
                    let res = apply_api(&sp, op, &[hs[f as usize].clone(), hs[g as usize].clone()]);
                    let want = bin_tt(b, f, g, sp.full);
                    let mut ok = true;
                    if oracle.semantic && walk(&res) != want {
                        ok = false;
                    }
                    if oracle.canonical {
                        let c = &canon[want as usize];
                        if !robdd::same_small(c, &res) || **c != *res {
                            ok = false;
                        }
                        if (want == sp.full) != res.is_true() || (want == 0) != res.is_false() {
                            ok = false;
                        }
                    }
                    if !ok {
                        bad.push(g);
                    }
                }
                bad
            });
            match row {
                Ok(bad) => {
                    ctx.count(counter, 65536);
                    ctx.count("distinct_by_construction", 65536);
                    for g in bad.into_iter().take(50) {
                        check_api(ctx, &sp, "interned", op, &[f, g], oracle, prop_tag);
                    }
                }
                Err(_) => {
                    // a panic somewhere in the row: find it case by case
                    for g in 0..65536u64 {
                        check_api(ctx, &sp, "interned", op, &[f, g], oracle, prop_tag);
                    }
                }
            }
        }
        if *hs[f as usize] != *snap || *hs[f as usize] != *canon[f as usize] {
            ctx.violation(format!("{prop_tag} api syms={syms:?}: operand {f:#x} after a complete row"), "the operand diagram was modified by the operations of its row".to_string(), json!({"part": "api", "syms": syms, "space": "interned", "op": "not", "operands": [f]}));
        }
    }
}

/// Discovery BFS through the API: from {true, false, var(s)} apply every operator to every
/// tuple of reached states until a full round adds nothing. Returns the space; complaints
/// about the initial states and about states whose diagram is not canon are reported.
pub fn discover_api(ctx: &mut Ctx, syms: &[usize], oracle: Oracle, prop_tag: &str) -> Space<usize> {
    let mut sp = Space::<usize>::empty(syms);
    let case = |what: &str| json!({"part": "api-init", "syms": syms, "what": what});
    let mut init: Vec<(String, u64, Result<Rc<BDD<usize>>, String>)> = vec![];
    let env = sp.env.clone();
    init.push(("mk_const(true)".into(), sp.full, guarded(|| env.mk_const(true))));
    init.push(("mk_const(false)".into(), 0, guarded(|| env.mk_const(false))));
    for (i, s) in syms.iter().enumerate() {
        init.push((format!("var({s})"), sp.var_tt(i), guarded(|| env.var(*s))));
    }
    for (name, want, r) in init {
        ctx.count("transitions", 1);
        match r {
            Err(p) => ctx.violation(format!("{prop_tag} api syms={syms:?}: {name}"), format!("panicked: {p}"), case(&name)),
            Ok(h) => {
                let c = judge(&sp, &h, want, oracle);
                if !c.is_empty() {
                    ctx.violation(format!("{prop_tag} api syms={syms:?}: {name}"), c.join("; "), case(&name));
                }
                if let Ok(t) = sp.tt(&h) {
                    sp.add(t, h);
                }
            }
        }
    }
    let ops: Vec<ApiOp> = all_api_ops().into_iter().filter(|o| o.arity() <= 2).collect();
    let mut rounds = 0;
    loop {
        rounds += 1;
        let known = sp.order.clone();
        let mut added = false;
        for op in &ops {
            if op.arity() == 1 {
                for &a in &known {
                    if let Ok(r) = guarded(|| apply_api(&sp, *op, &[sp.get(a)])) {
                        if let Ok(t) = sp.tt(&r) {
                            added |= sp.add(t, r);
                        }
                    }
                }
            } else {
                for &a in &known {
                    for &b in &known {
                        if let Ok(r) = guarded(|| apply_api(&sp, *op, &[sp.get(a), sp.get(b)])) {
                            if let Ok(t) = sp.tt(&r) {
                                added |= sp.add(t, r);
                            }
                        }
                    }
                }
            }
        }
        if !added || rounds > 16 {
            break;
        }
    }
    ctx.global(&format!("bfs_rounds_api_k{}", syms.len()), rounds);
    sp
}

#[derive(Debug, Clone, Copy, PartialEq, Eq)]
pub enum IteMode {
    None,
    /// condition restricted to the initial states (constants and variables)
    CondInit,
    Full,
}

/// the complete transition sweep over a discovered space
pub fn sweep_api(ctx: &mut Ctx, sp: &Space<usize>, how: &str, oracle: Oracle, ite: IteMode, prop_tag: &str) {
    let n = sp.nfun() as u64;
    let present: Vec<u64> = (0..n).filter(|t| sp.has(*t)).collect();
    let mut idx = 0u64;
    for &a in &present {
        idx += 1;
        if ctx.mine(idx) {
            check_api(ctx, sp, how, ApiOp::Not, &[a], oracle, prop_tag);
        }
    }
    for b in ALL_BINS {
        for &x in &present {
            for &y in &present {
                idx += 1;
                if ctx.mine(idx) {
                    check_api(ctx, sp, how, ApiOp::Bin(b), &[x, y], oracle, prop_tag);
                }
            }
        }
    }
    let conds: Vec<u64> = match ite {
        IteMode::None => vec![],
        IteMode::Full => present.clone(),
        IteMode::CondInit => {
            let mut v = vec![sp.full, 0];
            v.extend((0..sp.k).map(|i| sp.var_tt(i)));
            v
        }
    };
    for &c in &conds {
        for &x in &present {
            for &y in &present {
                idx += 1;
                if ctx.mine(idx) {
                    check_api(ctx, sp, how, ApiOp::Ite, &[c, x, y], oracle, prop_tag);
                }
            }
        }
    }
}

pub fn replay_api(ctx: &mut Ctx, case: &Value, oracle: Oracle, prop_tag: &str) {
    let syms: Vec<usize> = case["syms"].as_array().map(|a| a.iter().map(|x| x.as_u64().unwrap_or(0) as usize).collect()).unwrap_or_default();
    let how = case["space"].as_str().unwrap_or("closure").to_string();
    if case["part"].as_str() == Some("api-init") {
        let _ = discover_api(ctx, &syms, oracle, prop_tag);
        return;
    }
    let sp = if how == "foreign" {
        Space::<usize>::by_foreign(&syms)
    } else if how == "interned" || how == "transient" {
        match Space::<usize>::by_interning(&syms) {
            Ok(s) => s,
            Err(e) => {
                ctx.violation(format!("{prop_tag} api syms={syms:?}: building operands"), e, case.clone());
                return;
            }
        }
    } else {
        discover_api(ctx, &syms, oracle, prop_tag)
    };
    let op = ApiOp::parse(case["op"].as_str().unwrap_or("")).unwrap_or(ApiOp::Not);
    let tts: Vec<u64> = case["operands"].as_array().map(|a| a.iter().map(|x| x.as_u64().unwrap_or(0)).collect()).unwrap_or_default();
    if tts.iter().all(|t| sp.has(*t)) && tts.len() == op.arity() {
        check_api(ctx, &sp, &how, op, &tts, oracle, prop_tag);
    }
}

// =======================================================================================
// evaluator-level closure: one syntax node over `Subtree` operands per transition

#[derive(Debug, Clone, PartialEq, Eq, Hash)]
pub enum EvOp {
    Not,
    Bin(Bin),
    Ite,
    /// (is_exists, indexes into the quantifier variable pool)
    Quant(bool, Vec<usize>),
    /// count(operands) cmp n
    CountConst(Cmp, usize),
    /// count(first `split` operands) cmp count(rest)
    CountVar(Cmp, usize),
}

pub struct EvalSpace {
    pub sp: Space<NamedSymbol>,
    /// quantifier variable pool: the space's variables followed by one variable outside every support
    pub qpool: Vec<NamedSymbol>,
    pub pf: ParsedFormula,
}

pub fn named_syms(k: usize) -> Vec<NamedSymbol> {
    // non-adjacent ids; c, d (and the outside variable z) are congruent modulo 32 and 64, so an
    // implementation that keeps variable ids in a machine-word bit set would confuse them
    // the names are deliberately NOT in alphabetical order of their ids: the order of a diagram
    // is the order of the ids, never of the names
    [("z", 1usize), ("m", 4), ("a", 38), ("k", 102)].iter().take(k).map(|(n, i)| sym(n, *i)).collect()
}

impl EvalSpace {
    pub fn new(k: usize) -> EvalSpace {
        let syms = named_syms(k);
        let sp = Space::<NamedSymbol>::empty(&syms);
        let mut qpool = syms.clone();
        qpool.push(sym("b", 166));
        // built through the public constructor (not a struct literal) so that the harness does
        // not depend on the exact set of fields; the syntax tree is then replaced per transition
        let pf = ParsedFormula::new_with_env(sp.env.clone(), &mut std::io::BufReader::new("true".as_bytes()), Some(qpool.clone())).expect("machinery: cannot build a ParsedFormula for 'true'");
        EvalSpace { sp, qpool, pf }
    }
    fn sub(&self, tt: u64) -> SymbolicBDD {
        SymbolicBDD::Subtree(self.sp.get(tt))
    }
    pub fn node(&self, op: &EvOp, tts: &[u64]) -> SymbolicBDD {
        let bx = |t: u64| Box::new(self.sub(t));
        match op {
            EvOp::Not => SymbolicBDD::Not(bx(tts[0])),
            EvOp::Bin(b) => SymbolicBDD::BinaryOp(impl_bin(*b), bx(tts[0]), bx(tts[1])),
            EvOp::Ite => SymbolicBDD::Ite(bx(tts[0]), bx(tts[1]), bx(tts[2])),
            EvOp::Quant(ex, vs) => SymbolicBDD::Quantifier(if *ex { QuantifierType::Exists } else { QuantifierType::Forall }, vs.iter().map(|i| self.qpool[*i].clone()).collect(), bx(tts[0])),
            EvOp::CountConst(c, n) => SymbolicBDD::CountableConst(impl_cmp(*c), tts.iter().map(|t| self.sub(*t)).collect(), *n),
            EvOp::CountVar(c, split) => SymbolicBDD::CountableVariable(impl_cmp(*c), tts[..*split].iter().map(|t| self.sub(*t)).collect(), tts[*split..].iter().map(|t| self.sub(*t)).collect()),
        }
    }
    pub fn expect(&self, op: &EvOp, tts: &[u64]) -> u64 {
        let full = self.sp.full;
        let k = self.sp.k;
        match op {
            EvOp::Not => !tts[0] & full,
            EvOp::Bin(b) => bin_tt(*b, tts[0], tts[1], full),
            EvOp::Ite => (tts[0] & tts[1]) | (!tts[0] & tts[2] & full),
            EvOp::Quant(ex, vs) => {
                let mut t = tts[0];
                for &i in vs {
                    if i < k {
                        t = if *ex { exists_tt(k, i, t) } else { forall_tt(k, i, t) };
                    }
                }
                t
            }
            EvOp::CountConst(c, n) => {
                let mut r = 0u64;
                for a in 0..(1usize << k) {
                    let cnt = tts.iter().filter(|t| (**t >> a) & 1 == 1).count() as u128;
                    if cmp_holds(*c, cnt, *n as u128) {
                        r |= 1 << a;
                    }
                }
                r
            }
            EvOp::CountVar(c, split) => {
                let mut r = 0u64;
                for a in 0..(1usize << k) {
                    let l = tts[..*split].iter().filter(|t| (**t >> a) & 1 == 1).count() as u128;
                    let rr = tts[*split..].iter().filter(|t| (**t >> a) & 1 == 1).count() as u128;
                    if cmp_holds(*c, l, rr) {
                        r |= 1 << a;
                    }
                }
                r
            }
        }
    }
    pub fn eval_node(&mut self, node: SymbolicBDD) -> Result<Rc<BDD<NamedSymbol>>, String> {
        self.pf.bdd = node;
        let pf = &self.pf;
        guarded(|| pf.eval())
    }
}

fn evop_json(op: &EvOp) -> Value {
    match op {
        EvOp::Not => json!({"op": "not"}),
        EvOp::Bin(b) => json!({"op": "bin", "bin": format!("{:?}", b)}),
        EvOp::Ite => json!({"op": "ite"}),
        EvOp::Quant(ex, vs) => json!({"op": "quant", "exists": ex, "vars": vs}),
        EvOp::CountConst(c, n) => json!({"op": "countconst", "cmp": format!("{:?}", c), "n": n}),
        EvOp::CountVar(c, s) => json!({"op": "countvar", "cmp": format!("{:?}", c), "split": s}),
    }
}
fn evop_from(v: &Value) -> Option<EvOp> {
    let cmp = |s: &str| ALL_CMPS.iter().find(|c| format!("{:?}", c) == s).copied();
    Some(match v["op"].as_str()? {
        "not" => EvOp::Not,
        "ite" => EvOp::Ite,
        "bin" => EvOp::Bin(*ALL_BINS.iter().find(|b| format!("{:?}", b) == v["bin"].as_str().unwrap_or(""))?),
        "quant" => EvOp::Quant(v["exists"].as_bool()?, v["vars"].as_array()?.iter().map(|x| x.as_u64().unwrap_or(0) as usize).collect()),
        "countconst" => EvOp::CountConst(cmp(v["cmp"].as_str()?)?, v["n"].as_u64()? as usize),
        "countvar" => EvOp::CountVar(cmp(v["cmp"].as_str()?)?, v["split"].as_u64()? as usize),
        _ => return None,
    })
}

fn ev_case(es: &EvalSpace, op: &EvOp, tts: &[u64]) -> Value {
    json!({"part": "eval-node", "k": es.sp.k, "node": evop_json(op), "operands": tts})
}

pub fn check_eval(ctx: &mut Ctx, es: &mut EvalSpace, op: &EvOp, tts: &[u64], oracle: Oracle, prop_tag: &str) {
    ctx.begin_case(|| ev_case(es, op, tts));
    ctx.count("transitions", 1);
    let want = es.expect(op, tts);
    let node = es.node(op, tts);
    let key = |es: &EvalSpace| format!("{prop_tag} evaluator k={}: {:?} on {}", es.sp.k, op, tts.iter().map(|t| format!("{t:#x}")).collect::<Vec<_>>().join(", "));
    match es.eval_node(node) {
        Err(p) => ctx.violation(key(es), format!("evaluation panicked: {p}"), ev_case(es, op, tts)),
        Ok(res) => {
            let c = judge(&es.sp, &res, want, oracle);
            if !c.is_empty() {
                ctx.violation(key(es), c.join("; "), ev_case(es, op, tts));
            }
            ctx.count("distinct_by_construction", 1);
            ctx.sample(|| json!({"node": format!("{:?}", op), "operands": tts.iter().map(|t| format!("{t:#x}")).collect::<Vec<_>>(), "result": robdd::show(&res)}));
        }
    }
}

/// discovery through the evaluator: from {true, false, variables} apply Not and the eight
/// binary operators until nothing new appears
pub fn discover_eval(ctx: &mut Ctx, k: usize, oracle: Oracle, prop_tag: &str) -> EvalSpace {
    let mut es = EvalSpace::new(k);
    let mut init: Vec<(String, u64, SymbolicBDD)> = vec![("true".into(), es.sp.full, SymbolicBDD::True), ("false".into(), 0, SymbolicBDD::False)];
    for i in 0..k {
        init.push((format!("variable {}", es.sp.syms[i]), es.sp.var_tt(i), SymbolicBDD::Var(es.sp.syms[i].clone())));
    }
    for (name, want, node) in init {
        ctx.count("transitions", 1);
        let case = json!({"part": "eval-init", "k": k, "what": name});
        match es.eval_node(node) {
            Err(p) => ctx.violation(format!("{prop_tag} evaluator k={k}: {name}"), format!("panicked: {p}"), case),
            Ok(h) => {
                let c = judge(&es.sp, &h, want, oracle);
                if !c.is_empty() {
                    ctx.violation(format!("{prop_tag} evaluator k={k}: {name}"), c.join("; "), case);
                }
                if let Ok(t) = es.sp.tt(&h) {
                    es.sp.add(t, h);
                }
            }
        }
    }
    let mut rounds = 0;
    loop {
        rounds += 1;
        let known = es.sp.order.clone();
        let mut added = false;
        for &a in &known {
            let n = es.node(&EvOp::Not, &[a]);
            if let Ok(r) = es.eval_node(n) {
                if let Ok(t) = es.sp.tt(&r) {
                    added |= es.sp.add(t, r);
                }
            }
        }
        for b in ALL_BINS {
            for &x in &known {
                for &y in &known {
                    let n = es.node(&EvOp::Bin(b), &[x, y]);
                    if let Ok(r) = es.eval_node(n) {
                        if let Ok(t) = es.sp.tt(&r) {
                            added |= es.sp.add(t, r);
                        }
                    }
                }
            }
        }
        if !added || rounds > 16 {
            break;
        }
    }
    ctx.global(&format!("bfs_rounds_eval_k{k}"), rounds);
    es
}

/// all lists over 0..n of length 0..=maxlen (with repeats)
pub fn index_lists(n: usize, maxlen: usize) -> Vec<Vec<usize>> {
    crate::enumerate::lists_upto(n, maxlen)
}

pub struct EvalSweep {
    pub ite: IteMode,
    pub quant_maxlen: usize,
    pub count_const_maxlist: usize,
    pub count_var_left: usize,
    pub count_var_right: usize,
}

pub fn sweep_eval(ctx: &mut Ctx, es: &mut EvalSpace, oracle: Oracle, sw: &EvalSweep, prop_tag: &str) {
    let n = es.sp.nfun() as u64;
    let present: Vec<u64> = (0..n).filter(|t| es.sp.has(*t)).collect();
    let mut idx = 0u64;
    for &a in &present {
        idx += 1;
        if ctx.mine(idx) {
            check_eval(ctx, es, &EvOp::Not, &[a], oracle, prop_tag);
        }
    }
    for b in ALL_BINS {
        for &x in &present {
            for &y in &present {
                idx += 1;
                if ctx.mine(idx) {
                    check_eval(ctx, es, &EvOp::Bin(b), &[x, y], oracle, prop_tag);
                }
            }
        }
    }
    let conds: Vec<u64> = match sw.ite {
        IteMode::None => vec![],
        IteMode::Full => present.clone(),
        IteMode::CondInit => {
            let mut v = vec![es.sp.full, 0];
            v.extend((0..es.sp.k).map(|i| es.sp.var_tt(i)));
            v
        }
    };
    for &c in &conds {
        for &x in &present {
            for &y in &present {
                idx += 1;
                if ctx.mine(idx) {
                    check_eval(ctx, es, &EvOp::Ite, &[c, x, y], oracle, prop_tag);
                }
            }
        }
    }
    // quantifiers: every variable list (with repeats) over the pool incl. one outside variable
    for vs in index_lists(es.qpool.len(), sw.quant_maxlen) {
        for ex in [true, false] {
            let op = EvOp::Quant(ex, vs.clone());
            for &a in &present {
                idx += 1;
                if ctx.mine(idx) {
                    check_eval(ctx, es, &op, &[a], oracle, prop_tag);
                }
            }
        }
    }
    // counting against constants: every operand list up to L, every n in 0..=L+1
    let l = sw.count_const_maxlist;
    for len in 0..=l {
        let mut todo: Vec<Vec<u64>> = vec![];
        crate::enumerate::for_each_seq(present.len(), len, &mut |_, d| {
            idx += 1;
            if ctx.mine(idx) {
                todo.push(d.iter().map(|&i| present[i]).collect());
            }
        });
        for ops in todo {
            for c in ALL_CMPS {
                for nn in 0..=(l + 1) {
                    check_eval(ctx, es, &EvOp::CountConst(c, nn), &ops, oracle, prop_tag);
                }
            }
        }
    }
    // counting list against list
    for ll in 0..=sw.count_var_left {
        for rl in 0..=sw.count_var_right {
            let mut todo: Vec<Vec<u64>> = vec![];
            crate::enumerate::for_each_seq(present.len(), ll + rl, &mut |_, d| {
                idx += 1;
                if ctx.mine(idx) {
                    todo.push(d.iter().map(|&i| present[i]).collect());
                }
            });
            for ops in todo {
                for c in ALL_CMPS {
                    check_eval(ctx, es, &EvOp::CountVar(c, ll), &ops, oracle, prop_tag);
                }
            }
        }
    }
}

pub fn replay_eval(ctx: &mut Ctx, case: &Value, oracle: Oracle, prop_tag: &str) {
    let k = case["k"].as_u64().unwrap_or(2) as usize;
    let mut es = discover_eval(ctx, k, oracle, prop_tag);
    if case["part"].as_str() == Some("eval-init") {
        return;
    }
    if let Some(op) = evop_from(&case["node"]) {
        let tts: Vec<u64> = case["operands"].as_array().map(|a| a.iter().map(|x| x.as_u64().unwrap_or(0)).collect()).unwrap_or_default();
        if tts.iter().all(|t| es.sp.has(*t)) {
            check_eval(ctx, &mut es, &op, &tts, oracle, prop_tag);
        }
    }
}

// =======================================================================================
// structured family over 6 variables (deeper diagrams than the complete spaces can hold)

/// a fixed family of functions of 6 variables: constants, literals, thresholds, exact
/// counts, parities, all functions of three variable pairs, all 64 minterms, aligned
/// intervals of the assignment order, and 32 fixed pseudo-random tables
pub fn family6() -> Vec<u64> {
    let k = 6;
    let mut out: Vec<u64> = vec![0, !0];
    let mut push = |t: u64, out: &mut Vec<u64>| {
        if !out.contains(&t) {
            out.push(t);
        }
    };
    let v: Vec<u64> = (0..k).map(|i| crate::refl::var_tt(k, i)).collect();
    for x in &v {
        push(*x, &mut out);
        push(!*x, &mut out);
    }
    for t in 0..=6u32 {
        let mut ge = 0u64;
        let mut eq = 0u64;
        for a in 0..64u32 {
            if a.count_ones() >= t {
                ge |= 1 << a;
            }
            if a.count_ones() == t {
                eq |= 1 << a;
            }
        }
        push(ge, &mut out);
        push(eq, &mut out);
    }
    let mut par = 0u64;
    for a in 0..64u32 {
        if a.count_ones() % 2 == 1 {
            par |= 1 << a;
        }
    }
    push(par, &mut out);
    push(!par, &mut out);
    for (i, j) in [(0usize, 5usize), (2, 3), (1, 4)] {
        for f in 0..16u64 {
            let mut t = 0u64;
            for a in 0..64usize {
                let bi = (a >> i) & 1;
                let bj = (a >> j) & 1;
                if (f >> (bi + 2 * bj)) & 1 == 1 {
                    t |= 1 << a;
                }
            }
            push(t, &mut out);
        }
    }
    for a in 0..64 {
        push(1u64 << a, &mut out);
    }
    for lo in (0..64).step_by(8) {
        for hi in ((lo + 8)..=64).step_by(8) {
            let h = if hi == 64 { !0u64 } else { (1u64 << hi) - 1 };
            push(h & !((1u64 << lo) - 1), &mut out);
        }
    }
    let mut x = 0x9e3779b97f4a7c15u64;
    for _ in 0..32 {
        x ^= x << 13;
        x ^= x >> 7;
        x ^= x << 17;
        push(x, &mut out);
    }
    out
}

/// every binary connective and `not` on every pair of the 6-variable family, `ite` on every
/// triple of a 40-member sub-family; operands are interned canonical diagrams
pub fn sweep_family6(ctx: &mut Ctx, oracle: Oracle, prop_tag: &str) {
    // small ids with small gaps, and large ids with large gaps
    sweep_family6_on(ctx, oracle, prop_tag, [0usize, 2, 3, 5, 8, 13]);
    sweep_family6_on(ctx, oracle, prop_tag, [7usize, 64, 65, 300, 4096, 1_000_000]);
}

fn sweep_family6_on(ctx: &mut Ctx, oracle: Oracle, prop_tag: &str, syms: [usize; 6]) {
    let sp = Space::<usize>::empty(&syms);
    let fam = family6();
    let mut hs: Vec<Rc<BDD<usize>>> = vec![];
    for t in &fam {
        let c = sp.canon(*t);
        match guarded(|| sp.intern(&c)) {
            Ok(h) if *h == *c => hs.push(h),
            _ => {
                ctx.violation(format!("{prop_tag} family6 syms={syms:?}: building operands"), format!("mk_choice did not reproduce the canonical diagram of {t:#x}"), json!({"part": "family6", "syms": syms, "op": "not", "operands": [0]}));
                return;
            }
        }
    }
    ctx.global("family6_members", fam.len() as u64);
    let mut idx = 0u64;
    let mut one = |ctx: &mut Ctx, op: ApiOp, ix: &[usize]| {
        let tts: Vec<u64> = ix.iter().map(|i| fam[*i]).collect();
        let case = || json!({"part": "family6", "syms": syms, "op": op.name(), "operands": ix});
        ctx.begin_case(case);
        ctx.count("transitions", 1);
        ctx.count("distinct_by_construction", 1);
        let want = op.expect(&tts, sp.full);
        let ops: Vec<Rc<BDD<usize>>> = ix.iter().map(|i| hs[*i].clone()).collect();
        let key = || format!("{prop_tag} family6 syms={:?}: {}({})", syms, op.name(), tts.iter().map(|t| format!("{t:#x}")).collect::<Vec<_>>().join(", "));
        match guarded(|| apply_api(&sp, op, &ops)) {
            Err(p) => ctx.violation(key(), format!("operation panicked: {p}"), case()),
            Ok(res) => {
                let c = judge(&sp, &res, want, oracle);
                if !c.is_empty() {
                    ctx.violation(key(), c.join("; "), case());
                }
            }
        }
    };
    for i in 0..fam.len() {
        idx += 1;
        if ctx.mine(idx) {
            one(ctx, ApiOp::Not, &[i]);
        }
        for j in 0..fam.len() {
            idx += 1;
            if ctx.mine(idx) {
                for b in ALL_BINS {
                    one(ctx, ApiOp::Bin(b), &[i, j]);
                }
            }
        }
    }
    let sub: Vec<usize> = (0..fam.len()).step_by((fam.len() / 40).max(1)).collect();
    for &a in &sub {
        for &b in &sub {
            idx += 1;
            if ctx.mine(idx) {
                for &c in &sub {
                    one(ctx, ApiOp::Ite, &[a, b, c]);
                }
            }
        }
    }
}

pub fn replay_family6(ctx: &mut Ctx, case: &Value, oracle: Oracle, prop_tag: &str) {
    // re-run the (small) family sweep and keep the recorded case
    let mut c2 = Ctx::new(prop_tag, ctx.tier, ctx.seed, 0, 1);
    sweep_family6(&mut c2, oracle, prop_tag);
    for v in c2.violations {
        if v.replay["op"] == case["op"] && v.replay["operands"] == case["operands"] && v.replay["syms"] == case["syms"] {
            ctx.violation(v.key, v.what, v.replay);
        }
    }
}
