//! Reference model of the rsbdd formula language: lexer, LL(1) parser, printer and
//! truth-table semantics. Written from README.md and the property statements; it uses
//! nothing from the rsbdd crate (conversions from rsbdd types live in `conv.rs`).

use std::collections::BTreeMap;

#[derive(Debug, Clone, PartialEq, Eq, Hash, PartialOrd, Ord)]
pub enum Tok {
    Var(String),
    /// decimal digits, canonical (no leading zeros, "0" for zero)
    Num(String),
    Ref(String),
    And,
    Or,
    Not,
    Xor,
    Nor,
    Nand,
    Implies,
    ImpliesInv,
    Iff,
    If,
    Then,
    Else,
    Exists,
    Forall,
    Eq,
    Geq,
    Gt,
    Lt,
    LP,
    RP,
    LS,
    RS,
    Comma,
    False,
    True,
    Lfp,
    Gfp,
    Hash,
}

/// Word characters of the language: letters, digits, underscore (and other connector
/// punctuation / marks are not in any alphabet the checks use), plus the apostrophe.
pub fn is_word(c: char) -> bool {
    // the engine's class is `[\w']`: Unicode \w also holds marks, connector punctuation and the
    // two joiners; of those the checks use the combining diacriticals, U+094D, U+203F, U+2040,
    // U+200C and U+200D
    c.is_alphanumeric() || c == '_' || c == '\'' || ('\u{300}'..='\u{36f}').contains(&c) || matches!(c, '\u{94d}' | '\u{203f}' | '\u{2040}' | '\u{200c}' | '\u{200d}')
}

/// A decimal digit as the language sees it. Only ASCII digits are in the claimed lexical
/// alphabet; other Unicode decimal digits are outside C08's alphabet (DESIGN §7).
pub fn is_digit(c: char) -> bool {
    c.is_ascii_digit()
}

pub fn canon_num(s: &str) -> String {
    let t = s.trim_start_matches('0');
    if t.is_empty() {
        "0".to_string()
    } else {
        t.to_string()
    }
}

pub fn keyword(w: &str) -> Option<Tok> {
    Some(match w {
        "false" => Tok::False,
        "true" => Tok::True,
        "not" => Tok::Not,
        "and" => Tok::And,
        "or" => Tok::Or,
        "xor" => Tok::Xor,
        "nor" => Tok::Nor,
        "nand" => Tok::Nand,
        "implies" | "in" => Tok::Implies,
        "iff" | "eq" => Tok::Iff,
        "exists" | "any" => Tok::Exists,
        "forall" | "all" => Tok::Forall,
        "if" => Tok::If,
        "then" => Tok::Then,
        "else" => Tok::Else,
        "gfp" | "nu" => Tok::Gfp,
        "lfp" | "mu" => Tok::Lfp,
        _ => return None,
    })
}

const SYMS: [(&str, Tok); 20] = [
    ("<=>", Tok::Iff),
    ("<=", Tok::ImpliesInv),
    ("=>", Tok::Implies),
    (">=", Tok::Geq),
    ("!", Tok::Not),
    ("&", Tok::And),
    ("-", Tok::Not),
    ("|", Tok::Or),
    ("^", Tok::Xor),
    ("#", Tok::Hash),
    ("*", Tok::And),
    ("+", Tok::Or),
    ("=", Tok::Eq),
    (">", Tok::Gt),
    ("<", Tok::Lt),
    ("[", Tok::LS),
    ("]", Tok::RS),
    (",", Tok::Comma),
    ("(", Tok::LP),
    (")", Tok::RP),
];

/// Maximal-munch scanner. Everything that starts no lexeme is a separator.
pub fn lex(s: &str) -> Vec<Tok> {
    let cs: Vec<char> = s.chars().collect();
    let mut i = 0;
    let mut out = vec![];
    'outer: while i < cs.len() {
        let c = cs[i];
        // symbols are ASCII and at most 3 characters long: compare without allocating
        if c.is_ascii() && !c.is_ascii_alphanumeric() {
            for (p, t) in SYMS.iter() {
                let pb = p.as_bytes();
                if i + pb.len() <= cs.len() && pb.iter().enumerate().all(|(k, b)| cs[i + k] == *b as char) {
                    out.push(t.clone());
                    i += pb.len();
                    continue 'outer;
                }
            }
        }
        if is_digit(c) {
            let st = i;
            while i < cs.len() && is_digit(cs[i]) {
                i += 1;
            }
            let d: String = cs[st..i].iter().collect();
            out.push(Tok::Num(canon_num(&d)));
            continue;
        }
        if c == '{' {
            let mut j = i + 1;
            while j < cs.len() && is_word(cs[j]) {
                j += 1;
            }
            if j > i + 1 && j < cs.len() && cs[j] == '}' {
                out.push(Tok::Ref(cs[i + 1..j].iter().collect()));
                i = j + 1;
            } else {
                i += 1;
            }
            continue;
        }
        if is_word(c) {
            let st = i;
            while i < cs.len() && is_word(cs[i]) {
                i += 1;
            }
            let w: String = cs[st..i].iter().collect();
            out.push(keyword(&w).unwrap_or(Tok::Var(w)));
            continue;
        }
        if c == '"' {
            let mut j = i + 1;
            while j < cs.len() && cs[j] != '"' {
                j += 1;
            }
            if j < cs.len() {
                i = j + 1;
            } else {
                i += 1;
            }
            continue;
        }
        i += 1;
    }
    out
}

#[derive(Debug, Clone, Copy, PartialEq, Eq, Hash, PartialOrd, Ord)]
pub enum Bin {
    And,
    Or,
    Xor,
    Nor,
    Nand,
    Implies,
    ImpliesInv,
    Iff,
}
pub const ALL_BINS: [Bin; 8] = [
    Bin::And,
    Bin::Or,
    Bin::Xor,
    Bin::Nor,
    Bin::Nand,
    Bin::Implies,
    Bin::ImpliesInv,
    Bin::Iff,
];

#[derive(Debug, Clone, Copy, PartialEq, Eq, Hash, PartialOrd, Ord)]
pub enum Cmp {
    AtMost,
    LessThan,
    AtLeast,
    MoreThan,
    Exactly,
}
pub const ALL_CMPS: [Cmp; 5] = [
    Cmp::AtMost,
    Cmp::LessThan,
    Cmp::AtLeast,
    Cmp::MoreThan,
    Cmp::Exactly,
];

#[derive(Debug, Clone, PartialEq, Eq, Hash, PartialOrd, Ord)]
pub enum Ast {
    False,
    True,
    Var(String),
    Ref(String),
    Not(Box<Ast>),
    /// (is_exists, variables, body)
    Q(bool, Vec<String>, Box<Ast>),
    /// count(list) cmp constant (canonical decimal string)
    CC(Cmp, Vec<Ast>, String),
    CV(Cmp, Vec<Ast>, Vec<Ast>),
    /// (name, is_gfp, body)
    Fp(String, bool, Box<Ast>),
    Ite(Box<Ast>, Box<Ast>, Box<Ast>),
    Bin(Bin, Box<Ast>, Box<Ast>),
}

impl Ast {
    pub fn var(s: &str) -> Ast {
        Ast::Var(s.to_string())
    }
    pub fn not(a: Ast) -> Ast {
        Ast::Not(Box::new(a))
    }
    pub fn bin(op: Bin, l: Ast, r: Ast) -> Ast {
        Ast::Bin(op, Box::new(l), Box::new(r))
    }
    pub fn ite(c: Ast, t: Ast, e: Ast) -> Ast {
        Ast::Ite(Box::new(c), Box::new(t), Box::new(e))
    }
    pub fn q(ex: bool, vs: &[&str], b: Ast) -> Ast {
        Ast::Q(ex, vs.iter().map(|s| s.to_string()).collect(), Box::new(b))
    }
    pub fn fp(x: &str, gfp: bool, b: Ast) -> Ast {
        Ast::Fp(x.to_string(), gfp, Box::new(b))
    }
    pub fn size(&self) -> usize {
        match self {
            Ast::False | Ast::True | Ast::Var(_) | Ast::Ref(_) => 1,
            Ast::Not(x) | Ast::Q(_, _, x) | Ast::Fp(_, _, x) => 1 + x.size(),
            Ast::CC(_, l, _) => 1 + l.iter().map(Ast::size).sum::<usize>(),
            Ast::CV(_, l, r) => 1 + l.iter().chain(r.iter()).map(Ast::size).sum::<usize>(),
            Ast::Ite(a, b, c) => 1 + a.size() + b.size() + c.size(),
            Ast::Bin(_, l, r) => 1 + l.size() + r.size(),
        }
    }
    pub fn has_ref(&self) -> bool {
        match self {
            Ast::Ref(_) => true,
            Ast::False | Ast::True | Ast::Var(_) => false,
            Ast::Not(x) | Ast::Q(_, _, x) | Ast::Fp(_, _, x) => x.has_ref(),
            Ast::CC(_, l, _) => l.iter().any(Ast::has_ref),
            Ast::CV(_, l, r) => l.iter().chain(r.iter()).any(Ast::has_ref),
            Ast::Ite(a, b, c) => a.has_ref() || b.has_ref() || c.has_ref(),
            Ast::Bin(_, l, r) => l.has_ref() || r.has_ref(),
        }
    }
    pub fn has_fp(&self) -> bool {
        match self {
            Ast::Fp(..) => true,
            Ast::Ref(_) | Ast::False | Ast::True | Ast::Var(_) => false,
            Ast::Not(x) | Ast::Q(_, _, x) => x.has_fp(),
            Ast::CC(_, l, _) => l.iter().any(Ast::has_fp),
            Ast::CV(_, l, r) => l.iter().chain(r.iter()).any(Ast::has_fp),
            Ast::Ite(a, b, c) => a.has_fp() || b.has_fp() || c.has_fp(),
            Ast::Bin(_, l, r) => l.has_fp() || r.has_fp(),
        }
    }
    /// every variable name in order of first appearance in the *text* (binder lists
    /// and binder names count as appearances)
    pub fn names(&self) -> Vec<String> {
        fn go(a: &Ast, out: &mut Vec<String>, seen: &mut rustc_hash::FxHashSet<String>) {
            let mut push = |v: &String, out: &mut Vec<String>| {
                if seen.insert(v.clone()) {
                    out.push(v.clone())
                }
            };
            match a {
                Ast::Var(v) => push(v, out),
                Ast::Not(x) => go(x, out, seen),
                Ast::Q(_, vs, b) => {
                    for v in vs {
                        push(v, out);
                    }
                    go(b, out, seen)
                }
                Ast::Fp(v, _, b) => {
                    push(v, out);
                    go(b, out, seen)
                }
                Ast::CC(_, l, _) => l.iter().for_each(|x| go(x, out, seen)),
                Ast::CV(_, l, r) => l.iter().chain(r.iter()).for_each(|x| go(x, out, seen)),
                Ast::Ite(a, b, c) => {
                    go(a, out, seen);
                    go(b, out, seen);
                    go(c, out, seen)
                }
                Ast::Bin(_, l, r) => {
                    go(l, out, seen);
                    go(r, out, seen)
                }
                Ast::False | Ast::True | Ast::Ref(_) => {}
            }
        }
        let mut out = vec![];
        go(self, &mut out, &mut rustc_hash::FxHashSet::default());
        out
    }
    /// names with at least one occurrence not enclosed by a binder of the same name
    pub fn free_names(&self) -> Vec<String> {
        fn go(a: &Ast, bound: &mut Vec<String>, out: &mut Vec<String>, seen: &mut rustc_hash::FxHashSet<String>) {
            match a {
                Ast::Var(v) => {
                    if !bound.contains(v) && seen.insert(v.clone()) {
                        out.push(v.clone())
                    }
                }
                Ast::Not(x) => go(x, bound, out, seen),
                Ast::Q(_, vs, b) => {
                    let n = bound.len();
                    bound.extend(vs.iter().cloned());
                    go(b, bound, out, seen);
                    bound.truncate(n)
                }
                Ast::Fp(v, _, b) => {
                    bound.push(v.clone());
                    go(b, bound, out, seen);
                    bound.pop();
                }
                Ast::CC(_, l, _) => l.iter().for_each(|x| go(x, bound, out, seen)),
                Ast::CV(_, l, r) => l.iter().chain(r.iter()).for_each(|x| go(x, bound, out, seen)),
                Ast::Ite(a, b, c) => {
                    go(a, bound, out, seen);
                    go(b, bound, out, seen);
                    go(c, bound, out, seen)
                }
                Ast::Bin(_, l, r) => {
                    go(l, bound, out, seen);
                    go(r, bound, out, seen)
                }
                Ast::False | Ast::True | Ast::Ref(_) => {}
            }
        }
        let mut out = vec![];
        go(self, &mut vec![], &mut out, &mut rustc_hash::FxHashSet::default());
        out
    }
}

// ------------------------------------------------------------------------------------
// parser (LL(1), the grammar of DESIGN.md §2)

thread_local! {
    /// nesting limit of the reference parser (raised by callers that run on a large stack)
    pub static MAX_DEPTH: std::cell::Cell<usize> = const { std::cell::Cell::new(100_000) };
}

pub struct P<'a> {
    t: &'a [Tok],
    i: usize,
    depth: usize,
}
type R<T> = Result<T, String>;

impl<'a> P<'a> {
    pub fn formula(t: &'a [Tok]) -> R<Ast> {
        let mut p = P { t, i: 0, depth: 0 };
        let r = p.sub()?;
        if p.i != t.len() {
            return Err(format!("trailing input at token {}", p.i));
        }
        Ok(r)
    }
    fn peek(&self) -> Option<&Tok> {
        self.t.get(self.i)
    }
    fn next(&mut self) -> Option<Tok> {
        let r = self.t.get(self.i).cloned();
        if r.is_some() {
            self.i += 1;
        }
        r
    }
    fn expect(&mut self, t: Tok) -> R<()> {
        match self.next() {
            Some(x) if x == t => Ok(()),
            o => Err(format!("expected {:?} got {:?}", t, o)),
        }
    }
    fn sub(&mut self) -> R<Ast> {
        self.depth += 1;
        if self.depth > MAX_DEPTH.with(|d| d.get()) {
            return Err("too deep".into());
        }
        let l = self.simple()?;
        let op = match self.peek() {
            Some(Tok::And) => Bin::And,
            Some(Tok::Or) => Bin::Or,
            Some(Tok::Xor) => Bin::Xor,
            Some(Tok::Nor) => Bin::Nor,
            Some(Tok::Nand) => Bin::Nand,
            Some(Tok::Implies) => Bin::Implies,
            Some(Tok::ImpliesInv) => Bin::ImpliesInv,
            Some(Tok::Iff) => Bin::Iff,
            _ => {
                self.depth -= 1;
                return Ok(l);
            }
        };
        self.i += 1;
        let r = self.sub()?;
        self.depth -= 1;
        Ok(Ast::Bin(op, Box::new(l), Box::new(r)))
    }
    fn list(&mut self) -> R<Vec<Ast>> {
        self.expect(Tok::LS)?;
        let mut v = vec![];
        loop {
            if self.peek() == Some(&Tok::RS) {
                break;
            }
            v.push(self.sub()?);
            if self.peek() == Some(&Tok::Comma) {
                self.i += 1;
            } else {
                break;
            }
        }
        self.expect(Tok::RS)?;
        Ok(v)
    }
    fn varlist(&mut self) -> R<Vec<String>> {
        let mut v = vec![];
        loop {
            if self.peek() == Some(&Tok::Hash) {
                break;
            }
            match self.next() {
                Some(Tok::Var(x)) => v.push(x),
                o => return Err(format!("variable expected, got {:?}", o)),
            }
            if self.peek() == Some(&Tok::Comma) {
                self.i += 1;
            } else {
                break;
            }
        }
        Ok(v)
    }
    fn simple(&mut self) -> R<Ast> {
        match self.peek().cloned() {
            Some(Tok::LP) => {
                self.i += 1;
                let r = self.sub()?;
                self.expect(Tok::RP)?;
                Ok(r)
            }
            Some(Tok::LS) => {
                let l = self.list()?;
                let op = match self.next() {
                    Some(Tok::Eq) => Cmp::Exactly,
                    Some(Tok::ImpliesInv) => Cmp::AtMost,
                    Some(Tok::Geq) => Cmp::AtLeast,
                    Some(Tok::Lt) => Cmp::LessThan,
                    Some(Tok::Gt) => Cmp::MoreThan,
                    o => return Err(format!("comparison expected, got {:?}", o)),
                };
                if self.peek() == Some(&Tok::LS) {
                    let r = self.list()?;
                    Ok(Ast::CV(op, l, r))
                } else {
                    match self.next() {
                        Some(Tok::Num(n)) => Ok(Ast::CC(op, l, n)),
                        o => Err(format!("number expected, got {:?}", o)),
                    }
                }
            }
            Some(Tok::False) => {
                self.i += 1;
                Ok(Ast::False)
            }
            Some(Tok::True) => {
                self.i += 1;
                Ok(Ast::True)
            }
            Some(Tok::Ref(r)) => {
                self.i += 1;
                Ok(Ast::Ref(r))
            }
            Some(Tok::Var(v)) => {
                self.i += 1;
                Ok(Ast::Var(v))
            }
            Some(Tok::Not) => {
                self.i += 1;
                self.depth += 1;
                if self.depth > MAX_DEPTH.with(|d| d.get()) {
                    return Err("too deep".into());
                }
                let r = self.simple()?;
                self.depth -= 1;
                Ok(Ast::Not(Box::new(r)))
            }
            Some(Tok::Exists) | Some(Tok::Forall) => {
                let ex = self.next() == Some(Tok::Exists);
                let v = self.varlist()?;
                self.expect(Tok::Hash)?;
                let f = self.sub()?;
                Ok(Ast::Q(ex, v, Box::new(f)))
            }
            Some(Tok::Gfp) | Some(Tok::Lfp) => {
                let g = self.next() == Some(Tok::Gfp);
                let v = match self.next() {
                    Some(Tok::Var(x)) => x,
                    o => return Err(format!("variable expected, got {:?}", o)),
                };
                self.expect(Tok::Hash)?;
                let f = self.sub()?;
                Ok(Ast::Fp(v, g, Box::new(f)))
            }
            Some(Tok::If) => {
                self.i += 1;
                let c = self.sub()?;
                self.expect(Tok::Then)?;
                let t = self.sub()?;
                self.expect(Tok::Else)?;
                let e = self.sub()?;
                Ok(Ast::Ite(Box::new(c), Box::new(t), Box::new(e)))
            }
            o => Err(format!("unexpected {:?}", o)),
        }
    }
}

pub fn parse(text: &str) -> R<Ast> {
    P::formula(&lex(text))
}

// ------------------------------------------------------------------------------------
// printer

/// All spellings of a fixed token, canonical first.
pub fn spellings(t: &Tok) -> &'static [&'static str] {
    match t {
        Tok::And => &["&", "*", "and"],
        Tok::Or => &["|", "+", "or"],
        Tok::Not => &["-", "!", "not"],
        Tok::Xor => &["^", "xor"],
        Tok::Nor => &["nor"],
        Tok::Nand => &["nand"],
        Tok::Implies => &["=>", "implies", "in"],
        Tok::ImpliesInv => &["<="],
        Tok::Iff => &["<=>", "iff", "eq"],
        Tok::If => &["if"],
        Tok::Then => &["then"],
        Tok::Else => &["else"],
        Tok::Exists => &["exists", "any"],
        Tok::Forall => &["forall", "all"],
        Tok::Eq => &["="],
        Tok::Geq => &[">="],
        Tok::Gt => &[">"],
        Tok::Lt => &["<"],
        Tok::LP => &["("],
        Tok::RP => &[")"],
        Tok::LS => &["["],
        Tok::RS => &["]"],
        Tok::Comma => &[","],
        Tok::False => &["false"],
        Tok::True => &["true"],
        Tok::Lfp => &["lfp", "mu"],
        Tok::Gfp => &["gfp", "nu"],
        Tok::Hash => &["#"],
        Tok::Var(_) | Tok::Num(_) | Tok::Ref(_) => &[],
    }
}

pub fn bin_tok(b: Bin) -> Tok {
    match b {
        Bin::And => Tok::And,
        Bin::Or => Tok::Or,
        Bin::Xor => Tok::Xor,
        Bin::Nor => Tok::Nor,
        Bin::Nand => Tok::Nand,
        Bin::Implies => Tok::Implies,
        Bin::ImpliesInv => Tok::ImpliesInv,
        Bin::Iff => Tok::Iff,
    }
}
pub fn cmp_tok(c: Cmp) -> Tok {
    match c {
        Cmp::AtMost => Tok::ImpliesInv,
        Cmp::LessThan => Tok::Lt,
        Cmp::AtLeast => Tok::Geq,
        Cmp::MoreThan => Tok::Gt,
        Cmp::Exactly => Tok::Eq,
    }
}

/// true when the text of `a` (printed without surrounding parentheses) extends as far
/// right as possible, i.e. would swallow a following binary operator
fn open_right(a: &Ast) -> bool {
    match a {
        Ast::Q(..) | Ast::Fp(..) | Ast::Ite(..) => true,
        Ast::Not(x) => open_right(x),
        _ => false,
    }
}

#[derive(Debug, Clone, Copy, PartialEq, Eq)]
pub struct Style {
    /// parenthesise every composite operand
    pub full_parens: bool,
    /// trailing comma in lists and variable lists
    pub trailing_comma: bool,
}
pub const MINIMAL: Style = Style { full_parens: false, trailing_comma: false };
pub const FULL: Style = Style { full_parens: true, trailing_comma: false };

/// AST -> token list such that the grammar assigns exactly this AST to the list.
pub fn to_tokens(a: &Ast, st: Style) -> Vec<Tok> {
    let mut out = vec![];
    emit(a, st, &mut out);
    out
}

fn composite(a: &Ast) -> bool {
    !matches!(a, Ast::False | Ast::True | Ast::Var(_) | Ast::Ref(_))
}

fn emit_paren(a: &Ast, st: Style, need: bool, out: &mut Vec<Tok>) {
    let p = need || (st.full_parens && composite(a));
    if p {
        out.push(Tok::LP);
    }
    emit(a, st, out);
    if p {
        out.push(Tok::RP);
    }
}

fn emit_list(l: &[Ast], st: Style, out: &mut Vec<Tok>) {
    out.push(Tok::LS);
    for (i, x) in l.iter().enumerate() {
        if i > 0 {
            out.push(Tok::Comma);
        }
        emit_paren(x, st, false, out);
    }
    if st.trailing_comma && !l.is_empty() {
        out.push(Tok::Comma);
    }
    out.push(Tok::RS);
}

fn emit(a: &Ast, st: Style, out: &mut Vec<Tok>) {
    match a {
        Ast::False => out.push(Tok::False),
        Ast::True => out.push(Tok::True),
        Ast::Var(v) => out.push(Tok::Var(v.clone())),
        Ast::Ref(r) => out.push(Tok::Ref(r.clone())),
        Ast::Not(x) => {
            out.push(Tok::Not);
            emit_paren(x, st, matches!(**x, Ast::Bin(..)), out);
        }
        Ast::Q(ex, vs, b) => {
            out.push(if *ex { Tok::Exists } else { Tok::Forall });
            for (i, v) in vs.iter().enumerate() {
                if i > 0 {
                    out.push(Tok::Comma);
                }
                out.push(Tok::Var(v.clone()));
            }
            if st.trailing_comma && !vs.is_empty() {
                out.push(Tok::Comma);
            }
            out.push(Tok::Hash);
            emit_paren(b, st, false, out);
        }
        Ast::Fp(x, g, b) => {
            out.push(if *g { Tok::Gfp } else { Tok::Lfp });
            out.push(Tok::Var(x.clone()));
            out.push(Tok::Hash);
            emit_paren(b, st, false, out);
        }
        Ast::Ite(c, t, e) => {
            out.push(Tok::If);
            emit_paren(c, st, false, out);
            out.push(Tok::Then);
            emit_paren(t, st, false, out);
            out.push(Tok::Else);
            emit_paren(e, st, false, out);
        }
        Ast::CC(op, l, n) => {
            emit_list(l, st, out);
            out.push(cmp_tok(*op));
            out.push(Tok::Num(n.clone()));
        }
        Ast::CV(op, l, r) => {
            emit_list(l, st, out);
            out.push(cmp_tok(*op));
            emit_list(r, st, out);
        }
        Ast::Bin(op, l, r) => {
            emit_paren(l, st, matches!(**l, Ast::Bin(..)) || open_right(l), out);
            out.push(bin_tok(*op));
            emit_paren(r, st, false, out);
        }
    }
}

/// Render a token list as text with single spaces; `alias` picks a spelling per token:
/// it is called with the number of spellings and returns an index.
pub fn render(toks: &[Tok], alias: &mut dyn FnMut(usize) -> usize) -> String {
    let mut s = String::new();
    for (i, t) in toks.iter().enumerate() {
        if i > 0 {
            s.push(' ');
        }
        match t {
            Tok::Var(v) => s.push_str(v),
            Tok::Num(n) => s.push_str(n),
            Tok::Ref(r) => {
                s.push('{');
                s.push_str(r);
                s.push('}');
            }
            t => {
                let sp = spellings(t);
                let k = if sp.len() > 1 { alias(sp.len()) % sp.len() } else { 0 };
                s.push_str(sp[k]);
            }
        }
    }
    s
}

pub fn render_canon(toks: &[Tok]) -> String {
    render(toks, &mut |_| 0)
}

pub fn pp(a: &Ast, st: Style) -> String {
    render_canon(&to_tokens(a, st))
}

// ------------------------------------------------------------------------------------
// semantics: truth tables over a fixed list of variable names (<= 6), u64 bitset.
// Bit `a` of a table is the value under the assignment in which variable i is true iff
// bit i of `a` is set.

pub struct Sem {
    pub vars: Vec<String>,
}

pub fn cmp_holds(op: Cmp, c: u128, n: u128) -> bool {
    match op {
        Cmp::AtMost => c <= n,
        Cmp::LessThan => c < n,
        Cmp::AtLeast => c >= n,
        Cmp::MoreThan => c > n,
        Cmp::Exactly => c == n,
    }
}

pub fn bin_tt(op: Bin, l: u64, r: u64, full: u64) -> u64 {
    (match op {
        Bin::And => l & r,
        Bin::Or => l | r,
        Bin::Xor => l ^ r,
        Bin::Nor => !(l | r),
        Bin::Nand => !(l & r),
        Bin::Implies => !l | r,
        Bin::ImpliesInv => !r | l,
        Bin::Iff => !(l ^ r),
    }) & full
}

pub fn full_mask(k: usize) -> u64 {
    if k == 6 {
        !0
    } else {
        (1u64 << (1usize << k)) - 1
    }
}
pub fn var_tt(k: usize, i: usize) -> u64 {
    let mut r = 0;
    for a in 0..(1usize << k) {
        if (a >> i) & 1 == 1 {
            r |= 1 << a;
        }
    }
    r
}
pub fn exists_tt(k: usize, i: usize, t: u64) -> u64 {
    let mut r = 0;
    for a in 0..(1usize << k) {
        let a0 = a & !(1 << i);
        let a1 = a | (1 << i);
        if (t >> a0) & 1 == 1 || (t >> a1) & 1 == 1 {
            r |= 1 << a;
        }
    }
    r
}
pub fn forall_tt(k: usize, i: usize, t: u64) -> u64 {
    let f = full_mask(k);
    !exists_tt(k, i, !t & f) & f
}
/// does the function depend on variable i
pub fn depends_tt(k: usize, i: usize, t: u64) -> bool {
    for a in 0..(1usize << k) {
        if (a >> i) & 1 == 0 && ((t >> a) & 1) != ((t >> (a | (1 << i))) & 1) {
            return true;
        }
    }
    false
}

impl Sem {
    pub fn new(vars: &[String]) -> Sem {
        assert!(vars.len() <= 6, "reference semantics supports at most 6 variables");
        Sem { vars: vars.to_vec() }
    }
    pub fn k(&self) -> usize {
        self.vars.len()
    }
    pub fn n(&self) -> usize {
        1usize << self.vars.len()
    }
    pub fn full(&self) -> u64 {
        full_mask(self.k())
    }
    pub fn idx(&self, v: &str) -> usize {
        self.vars.iter().position(|x| x == v).unwrap_or_else(|| panic!("reference: unknown variable {v}"))
    }
    /// None: some fixed point does not converge (out of scope) or a reference is used.
    pub fn eval(&self, a: &Ast, rho: &BTreeMap<String, u64>) -> Option<u64> {
        let f = self.full();
        let k = self.k();
        Some(match a {
            Ast::False => 0,
            Ast::True => f,
            Ast::Ref(_) => return None,
            Ast::Var(v) => {
                if let Some(t) = rho.get(v) {
                    *t
                } else {
                    var_tt(k, self.idx(v))
                }
            }
            Ast::Not(x) => !self.eval(x, rho)? & f,
            Ast::Bin(op, l, r) => {
                let l = self.eval(l, rho)?;
                let r = self.eval(r, rho)?;
                bin_tt(*op, l, r, f)
            }
            Ast::Ite(c, t, e) => {
                let c = self.eval(c, rho)?;
                let t = self.eval(t, rho)?;
                let e = self.eval(e, rho)?;
                (c & t) | (!c & e & f)
            }
            Ast::Q(ex, vs, b) => {
                let mut rho2 = rho.clone();
                for v in vs {
                    rho2.remove(v);
                }
                let mut t = self.eval(b, &rho2)?;
                for v in vs {
                    let i = self.idx(v);
                    t = if *ex { exists_tt(k, i, t) } else { forall_tt(k, i, t) };
                }
                t
            }
            Ast::CC(op, l, n) => {
                let ls: Option<Vec<u64>> = l.iter().map(|x| self.eval(x, rho)).collect();
                let ls = ls?;
                // a constant too large for u128 exceeds every count
                let n: u128 = n.parse().unwrap_or(u128::MAX);
                let mut r = 0;
                for a in 0..self.n() {
                    let c = ls.iter().filter(|t| (**t >> a) & 1 == 1).count() as u128;
                    if cmp_holds(*op, c, n) {
                        r |= 1 << a;
                    }
                }
                r
            }
            Ast::CV(op, l, rr) => {
                let ls: Option<Vec<u64>> = l.iter().map(|x| self.eval(x, rho)).collect();
                let ls = ls?;
                let rs: Option<Vec<u64>> = rr.iter().map(|x| self.eval(x, rho)).collect();
                let rs = rs?;
                let mut r = 0;
                for a in 0..self.n() {
                    let c = ls.iter().filter(|t| (**t >> a) & 1 == 1).count() as u128;
                    let d = rs.iter().filter(|t| (**t >> a) & 1 == 1).count() as u128;
                    if cmp_holds(*op, c, d) {
                        r |= 1 << a;
                    }
                }
                r
            }
            Ast::Fp(x, g, b) => {
                let mut cur = if *g { f } else { 0 };
                let mut seen = std::collections::BTreeSet::new();
                loop {
                    if !seen.insert(cur) {
                        return None;
                    }
                    let mut rho2 = rho.clone();
                    rho2.insert(x.clone(), cur);
                    let nx = self.eval(b, &rho2)?;
                    if nx == cur {
                        break cur;
                    }
                    cur = nx;
                }
            }
        })
    }
    pub fn eval_closed(&self, a: &Ast) -> Option<u64> {
        self.eval(a, &BTreeMap::new())
    }
}

#[cfg(test)]
mod tests {
    use super::*;
    fn tt(text: &str, vars: &[&str]) -> u64 {
        let a = parse(text).unwrap();
        let vs: Vec<String> = vars.iter().map(|s| s.to_string()).collect();
        Sem::new(&vs).eval_closed(&a).unwrap()
    }
    #[test]
    fn golden_right_assoc() {
        // a & b | c  is  a & (b | c), not (a & b) | c
        let v = ["a", "b", "c"];
        assert_eq!(tt("a & b | c", &v), tt("a & (b | c)", &v));
        assert_ne!(tt("a & b | c", &v), tt("(a & b) | c", &v));
        // a => b => c is a => (b => c)
        assert_eq!(tt("a => b => c", &v), tt("a => (b => c)", &v));
        assert_ne!(tt("a => b => c", &v), tt("(a => b) => c", &v));
        // negation binds the next simple term
        assert_eq!(tt("-a & b", &v), tt("(-a) & b", &v));
        // quantifier body extends to the right
        assert_eq!(tt("exists a # a & b", &v), tt("b", &v));
        assert_eq!(tt("(exists a # a) & b", &v), tt("b", &v));
        assert_eq!(tt("(forall a # a) | b", &v), tt("b", &v));
        assert_eq!(tt("forall a # a | b", &v), tt("b", &v));
    }
    #[test]
    fn golden_counting() {
        let v = ["a", "b"];
        // explicit tables: bit index = a + 2*b
        assert_eq!(tt("[a, b] = 1", &v), 0b0110);
        assert_eq!(tt("[a, b] >= 1", &v), 0b1110);
        assert_eq!(tt("[a, b] <= 1", &v), 0b0111);
        assert_eq!(tt("[a, b] < 1", &v), 0b0001);
        assert_eq!(tt("[a, b] > 1", &v), 0b1000);
        assert_eq!(tt("[a] < [b]", &v), 0b0100);
        assert_eq!(tt("[a] <= [b]", &v), 0b1101);
        assert_eq!(tt("[] = 0", &v), 0b1111);
        assert_eq!(tt("[a, a] = 1", &v), 0);
        assert_eq!(tt("[a,] > 18446744073709551616000000000000000000000000", &v), 0);
    }
    #[test]
    fn golden_fixpoints() {
        let v = ["a", "b", "X"];
        assert_eq!(tt("lfp X # X", &v), 0);
        assert_eq!(tt("gfp X # X", &v), 0xff);
        assert_eq!(tt("lfp X # X | a", &v), tt("a", &v));
        assert_eq!(tt("gfp X # X & a", &v), tt("a", &v));
        assert_eq!(tt("mu X # a | (exists a # X & b)", &v), tt("a | b", &v));
        // shadowing: inner binder hides the outer name
        assert_eq!(tt("lfp X # a | (exists X # X)", &v), 0xff);
        assert_eq!(tt("gfp X # lfp X # X", &v), 0);
        assert!(parse("lfp X # -X").map(|a| Sem::new(&["X".to_string()]).eval_closed(&a)).unwrap().is_none());
    }
    #[test]
    fn lexer_munch() {
        assert_eq!(lex("a<=>b"), vec![Tok::Var("a".into()), Tok::Iff, Tok::Var("b".into())]);
        assert_eq!(lex("<=="), vec![Tok::ImpliesInv, Tok::Eq]);
        assert_eq!(lex("=>="), vec![Tok::Implies, Tok::Eq]);
        assert_eq!(lex(">=>"), vec![Tok::Geq, Tok::Gt]);
        assert_eq!(lex("1a"), vec![Tok::Num("1".into()), Tok::Var("a".into())]);
        assert_eq!(lex("a1"), vec![Tok::Var("a1".into())]);
        assert_eq!(lex("007"), vec![Tok::Num("7".into())]);
        assert_eq!(lex("\"c\"a\"b"), vec![Tok::Var("a".into()), Tok::Var("b".into())]);
        assert_eq!(lex("{x}{}{y"), vec![Tok::Ref("x".into()), Tok::Var("y".into())]);
        assert_eq!(lex("Exists exists"), vec![Tok::Var("Exists".into()), Tok::Exists]);
        assert_eq!(lex("a$b"), vec![Tok::Var("a".into()), Tok::Var("b".into())]);
    }
    #[test]
    fn printer_roundtrip_small() {
        let a = Ast::bin(
            Bin::And,
            Ast::not(Ast::q(true, &["a"], Ast::var("a"))),
            Ast::bin(Bin::Or, Ast::var("b"), Ast::ite(Ast::var("a"), Ast::True, Ast::fp("X", false, Ast::var("X")))),
        );
        for st in [MINIMAL, FULL, Style { full_parens: false, trailing_comma: true }] {
            assert_eq!(parse(&pp(&a, st)).unwrap(), a, "{}", pp(&a, st));
        }
    }
}
