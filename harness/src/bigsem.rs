//! Reference semantics for formulas with more than 6 names: truth tables as bit vectors
//! over all 2^n assignments (n <= 16). Same definitions as `refl::Sem`, different carrier.

use crate::refl::{cmp_holds, Ast, Bin};
use rsbdd::bdd::BDD;
use rsbdd::NamedSymbol;
use std::collections::BTreeMap;

pub type Big = Vec<u64>;

pub struct BigSem {
    pub vars: Vec<String>,
}

impl BigSem {
    pub fn new(vars: &[String]) -> BigSem {
        assert!(vars.len() <= 16, "big reference semantics supports at most 16 variables");
        BigSem { vars: vars.to_vec() }
    }
    pub fn n(&self) -> usize {
        1usize << self.vars.len()
    }
    fn words(&self) -> usize {
        self.n().div_ceil(64)
    }
    fn mask_last(&self, t: &mut Big) {
        if self.n() < 64 {
            t[0] &= (1u64 << self.n()) - 1;
        }
    }
    pub fn konst(&self, b: bool) -> Big {
        let mut t = vec![if b { !0u64 } else { 0 }; self.words()];
        self.mask_last(&mut t);
        t
    }
    pub fn get(t: &Big, a: usize) -> bool {
        (t[a / 64] >> (a % 64)) & 1 == 1
    }
    fn set(t: &mut Big, a: usize) {
        t[a / 64] |= 1 << (a % 64);
    }
    pub fn idx(&self, v: &str) -> usize {
        self.vars.iter().position(|x| x == v).unwrap_or_else(|| panic!("reference: unknown variable {v}"))
    }
    pub fn var(&self, i: usize) -> Big {
        let mut t = vec![0u64; self.words()];
        for a in 0..self.n() {
            if (a >> i) & 1 == 1 {
                Self::set(&mut t, a);
            }
        }
        t
    }
    fn map2(&self, l: &Big, r: &Big, f: impl Fn(u64, u64) -> u64) -> Big {
        let mut t: Big = l.iter().zip(r.iter()).map(|(a, b)| f(*a, *b)).collect();
        self.mask_last(&mut t);
        t
    }
    fn not(&self, l: &Big) -> Big {
        let mut t: Big = l.iter().map(|a| !*a).collect();
        self.mask_last(&mut t);
        t
    }
    fn quant(&self, i: usize, t: &Big, ex: bool) -> Big {
        let mut r = vec![0u64; self.words()];
        for a in 0..self.n() {
            let (x, y) = (Self::get(t, a & !(1 << i)), Self::get(t, a | (1 << i)));
            if if ex { x || y } else { x && y } {
                Self::set(&mut r, a);
            }
        }
        r
    }
    /// None: a fixed point does not converge / a reference occurs
    pub fn eval(&self, a: &Ast, rho: &BTreeMap<String, Big>) -> Option<Big> {
        Some(match a {
            Ast::False => self.konst(false),
            Ast::True => self.konst(true),
            Ast::Ref(_) => return None,
            Ast::Var(v) => rho.get(v).cloned().unwrap_or_else(|| self.var(self.idx(v))),
            Ast::Not(x) => self.not(&self.eval(x, rho)?),
            Ast::Bin(op, l, r) => {
                let (l, r) = (self.eval(l, rho)?, self.eval(r, rho)?);
                match op {
                    Bin::And => self.map2(&l, &r, |a, b| a & b),
                    Bin::Or => self.map2(&l, &r, |a, b| a | b),
                    Bin::Xor => self.map2(&l, &r, |a, b| a ^ b),
                    Bin::Nor => self.map2(&l, &r, |a, b| !(a | b)),
                    Bin::Nand => self.map2(&l, &r, |a, b| !(a & b)),
                    Bin::Implies => self.map2(&l, &r, |a, b| !a | b),
                    Bin::ImpliesInv => self.map2(&l, &r, |a, b| !b | a),
                    Bin::Iff => self.map2(&l, &r, |a, b| !(a ^ b)),
                }
            }
            Ast::Ite(c, t, e) => {
                let (c, t, e) = (self.eval(c, rho)?, self.eval(t, rho)?, self.eval(e, rho)?);
                let ct = self.map2(&c, &t, |a, b| a & b);
                let ce = self.map2(&c, &e, |a, b| !a & b);
                self.map2(&ct, &ce, |a, b| a | b)
            }
            Ast::Q(ex, vs, b) => {
                let mut rho2 = rho.clone();
                for v in vs {
                    rho2.remove(v);
                }
                let mut t = self.eval(b, &rho2)?;
                for v in vs {
                    t = self.quant(self.idx(v), &t, *ex);
                }
                t
            }
            Ast::CC(op, l, n) => {
                let ls: Option<Vec<Big>> = l.iter().map(|x| self.eval(x, rho)).collect();
                let ls = ls?;
                let n: u128 = n.parse().unwrap_or(u128::MAX);
                let mut r = vec![0u64; self.words()];
                for a in 0..self.n() {
                    let c = ls.iter().filter(|t| Self::get(t, a)).count() as u128;
                    if cmp_holds(*op, c, n) {
                        Self::set(&mut r, a);
                    }
                }
                r
            }
            Ast::CV(op, l, rr) => {
                let ls: Option<Vec<Big>> = l.iter().map(|x| self.eval(x, rho)).collect();
                let ls = ls?;
                let rs: Option<Vec<Big>> = rr.iter().map(|x| self.eval(x, rho)).collect();
                let rs = rs?;
                let mut r = vec![0u64; self.words()];
                for a in 0..self.n() {
                    let c = ls.iter().filter(|t| Self::get(t, a)).count() as u128;
                    let d = rs.iter().filter(|t| Self::get(t, a)).count() as u128;
                    if cmp_holds(*op, c, d) {
                        Self::set(&mut r, a);
                    }
                }
                r
            }
            Ast::Fp(x, g, b) => {
                let mut cur = self.konst(*g);
                let mut seen: std::collections::BTreeSet<Big> = std::collections::BTreeSet::new();
                loop {
                    if !seen.insert(cur.clone()) {
                        return None;
                    }
                    let mut rho2 = rho.clone();
                    rho2.insert(x.clone(), cur.clone());
                    let nx = self.eval(b, &rho2)?;
                    if nx == cur {
                        break cur;
                    }
                    cur = nx;
                }
            }
        })
    }
    /// truth table of a diagram, variables by name
    pub fn tt_named(&self, b: &BDD<NamedSymbol>) -> Result<Big, String> {
        let mut r = vec![0u64; self.words()];
        for a in 0..self.n() {
            let mut n = b;
            loop {
                match n {
                    BDD::True => {
                        Self::set(&mut r, a);
                        break;
                    }
                    BDD::False => break,
                    BDD::Choice(t, v, f) => {
                        let i = self.vars.iter().position(|x| x == v.name.as_ref()).ok_or_else(|| format!("diagram mentions unknown variable {}", v))?;
                        n = if (a >> i) & 1 == 1 { t } else { f };
                    }
                }
            }
        }
        Ok(r)
    }
}

#[cfg(test)]
mod tests {
    use super::*;
    use crate::refl::{parse, Sem};
    #[test]
    fn agrees_with_small_reference() {
        for text in ["a & b | -c", "exists a # a ^ b & c", "[a, b, c] = 1 | forall b # a => b", "lfp X # a | (exists a # X & b)", "if a then b else c <=> d", "gfp X # X & (a | b) & [c, d] < [a]"] {
            let ast = parse(text).unwrap();
            let names = ast.names();
            let small = Sem::new(&names).eval_closed(&ast).unwrap();
            let big = BigSem::new(&names).eval(&ast, &BTreeMap::new()).unwrap();
            assert_eq!(big[0], small, "{text}");
        }
    }
}
