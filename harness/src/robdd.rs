//! Independent reduced-ordered-diagram construction and walkers over `rsbdd::bdd::BDD`.
//! Nothing here calls an rsbdd *function*; only the public enum constructors are used.

use rsbdd::bdd::BDD;
use rsbdd::BDDSymbol;
use std::rc::Rc;

/// canon(f): the reduced ordered diagram of truth table `tt` over `syms` (ascending; bit i
/// of an assignment index is the value of syms[i]); smallest symbol on top.
pub fn canon<S: BDDSymbol>(tt: u64, syms: &[S]) -> Rc<BDD<S>> {
    fn go<S: BDDSymbol>(tt: u64, syms: &[S], level: usize, fixed: usize) -> Rc<BDD<S>> {
        if level == syms.len() {
            return Rc::new(if (tt >> fixed) & 1 == 1 { BDD::True } else { BDD::False });
        }
        let t = go(tt, syms, level + 1, fixed | (1 << level));
        let e = go(tt, syms, level + 1, fixed);
        if same_small(&t, &e) {
            t
        } else {
            Rc::new(BDD::Choice(t, syms[level].clone(), e))
        }
    }
    go(tt, syms, 0, 0)
}

/// Truth table of a diagram over `syms`; symbols are looked up with `pos`.
pub fn tt_of<S: BDDSymbol>(b: &BDD<S>, k: usize, pos: &dyn Fn(&S) -> Option<usize>) -> Result<u64, String> {
    let mut r = 0u64;
    for a in 0..(1usize << k) {
        let mut n = b;
        loop {
            match n {
                BDD::True => {
                    r |= 1 << a;
                    break;
                }
                BDD::False => break,
                BDD::Choice(t, v, f) => {
                    let i = pos(v).ok_or_else(|| format!("diagram mentions unknown variable {}", v))?;
                    n = if (a >> i) & 1 == 1 { t.as_ref() } else { f.as_ref() };
                }
            }
        }
    }
    Ok(r)
}

pub fn tt_usize(b: &BDD<usize>, syms: &[usize]) -> Result<u64, String> {
    tt_of(b, syms.len(), &|s| syms.iter().position(|x| x == s))
}

/// ordered (symbols strictly increase along every path) and reduced (no test with two
/// structurally equal outcomes)
pub fn is_ordered_reduced<S: BDDSymbol>(b: &BDD<S>) -> Result<(), String> {
    fn go<S: BDDSymbol>(b: &BDD<S>, above: Option<&S>) -> Result<(), String> {
        match b {
            BDD::True | BDD::False => Ok(()),
            BDD::Choice(t, v, f) => {
                if let Some(p) = above {
                    if !(p < v) {
                        return Err(format!("not ordered: {} above {}", p, v));
                    }
                }
                if same_small(t.as_ref(), f.as_ref()) {
                    return Err(format!("not reduced: redundant test on {}", v));
                }
                go(t, Some(v))?;
                go(f, Some(v))
            }
        }
    }
    go(b, None)
}

pub fn labels<S: BDDSymbol>(b: &BDD<S>, out: &mut Vec<S>) {
    if let BDD::Choice(t, v, f) = b {
        if !out.contains(v) {
            out.push(v.clone());
        }
        labels(t, out);
        labels(f, out);
    }
}

/// deep structural copy sharing nothing with the original
pub fn deep_copy<S: BDDSymbol>(b: &BDD<S>) -> Rc<BDD<S>> {
    Rc::new(match b {
        BDD::True => BDD::True,
        BDD::False => BDD::False,
        BDD::Choice(t, v, f) => BDD::Choice(deep_copy(t), v.clone(), deep_copy(f)),
    })
}

/// number of structurally distinct sub-diagrams (incl. leaves)
pub fn distinct_nodes<S: BDDSymbol>(b: &Rc<BDD<S>>) -> Vec<Rc<BDD<S>>> {
    fn go<S: BDDSymbol>(b: &Rc<BDD<S>>, out: &mut Vec<Rc<BDD<S>>>) {
        if out.iter().any(|x| x.as_ref() == b.as_ref()) {
            return;
        }
        out.push(b.clone());
        if let BDD::Choice(t, _, f) = b.as_ref() {
            go(t, out);
            go(f, out);
        }
    }
    let mut out = vec![];
    go(b, &mut out);
    out
}

/// a single cube: a chain in which every test has exactly one False child, ending in True.
/// Returns the literals (symbol, polarity).
pub fn as_cube<S: BDDSymbol>(b: &BDD<S>) -> Option<Vec<(S, bool)>> {
    let mut lits = vec![];
    let mut n = b;
    loop {
        match n {
            BDD::True => return Some(lits),
            BDD::False => return None,
            BDD::Choice(t, v, f) => match (t.as_ref(), f.as_ref()) {
                (BDD::False, BDD::False) => return None,
                (x, BDD::False) => {
                    lits.push((v.clone(), true));
                    n = x;
                }
                (BDD::False, x) => {
                    lits.push((v.clone(), false));
                    n = x;
                }
                _ => return None,
            },
        }
    }
}

pub fn show<S: BDDSymbol>(b: &BDD<S>) -> String {
    match b {
        BDD::True => "T".into(),
        BDD::False => "F".into(),
        BDD::Choice(t, v, f) => format!("({} ? {} : {})", v, show(t), show(f)),
    }
}

/// structural equality decided here (not through the subject's `PartialEq for BDD`); symbols
/// are compared with `eq`
pub fn same_by<S: BDDSymbol>(a: &BDD<S>, b: &BDD<S>, eq: &dyn Fn(&S, &S) -> bool) -> bool {
    // iterative: the diagrams compared with this can be hundreds of levels deep
    let mut work: Vec<(&BDD<S>, &BDD<S>)> = vec![(a, b)];
    let mut seen: rustc_hash::FxHashSet<(*const BDD<S>, *const BDD<S>)> = rustc_hash::FxHashSet::default();
    while let Some((x, y)) = work.pop() {
        if !seen.insert((x as *const _, y as *const _)) {
            continue;
        }
        match (x, y) {
            (BDD::True, BDD::True) | (BDD::False, BDD::False) => {}
            (BDD::Choice(t1, v1, f1), BDD::Choice(t2, v2, f2)) => {
                if !eq(v1, v2) {
                    return false;
                }
                work.push((t1.as_ref(), t2.as_ref()));
                work.push((f1.as_ref(), f2.as_ref()));
            }
            _ => return false,
        }
    }
    true
}

/// recursive structural equality for small diagrams (tree recursion; use `same_by` for deep or
/// heavily shared ones); independent of the subject's `PartialEq for BDD`
pub fn same_small<S: BDDSymbol>(a: &BDD<S>, b: &BDD<S>) -> bool {
    match (a, b) {
        (BDD::True, BDD::True) | (BDD::False, BDD::False) => true,
        (BDD::Choice(t1, v1, f1), BDD::Choice(t2, v2, f2)) => v1 == v2 && (Rc::ptr_eq(t1, t2) || same_small(t1, t2)) && (Rc::ptr_eq(f1, f2) || same_small(f1, f2)),
        _ => false,
    }
}
