#![allow(dead_code)]
mod bigsem;
mod cli;
mod closure;
mod space;
mod textsem;
mod conv;
mod enumerate;
mod dot;
mod formulas;
mod tablecheck;
mod props;
mod puzzles;
mod refl;
mod robdd;
mod runner;

use runner::Tier;
use std::path::PathBuf;

fn usage() -> ! {
    eprintln!("usage: vcheck run <ID> quick|thorough | vcheck replay <ID> <file> | vcheck list");
    std::process::exit(2)
}

fn main() {
    let args: Vec<String> = std::env::args().collect();
    if args.len() < 2 {
        usage();
    }
    let engine = |id: &str| {
        props::engine(id).unwrap_or_else(|| {
            eprintln!("unknown property {id}");
            std::process::exit(2)
        })
    };
    match args[1].as_str() {
        "list" => {
            for e in props::engines() {
                println!("{} {}", e.prop, e.level);
            }
        }
        "run" if args.len() == 4 => {
            let tier = Tier::parse(&args[3]).unwrap_or_else(|| usage());
            std::process::exit(runner::parent_main(engine(&args[2]), tier));
        }
        "replay" if args.len() == 4 => {
            std::process::exit(runner::replay_main(engine(&args[2]), &PathBuf::from(&args[3])));
        }
        "worker" if args.len() == 7 => {
            let tier = Tier::parse(&args[3]).unwrap_or_else(|| usage());
            runner::worker_main(engine(&args[2]), tier, args[4].parse().unwrap(), args[5].parse().unwrap(), &PathBuf::from(&args[6]));
        }
        "replay-worker" if args.len() == 5 => {
            runner::replay_worker_main(engine(&args[2]), &PathBuf::from(&args[3]), &PathBuf::from(&args[4]));
        }
        _ => usage(),
    }
}
