//! Reference tools for the generator checks: two- and three-valued evaluation of large
//! quantifier-light formulas, an exhaustive constraint-DFS model enumerator, and brute-force
//! solvers for n-queens, cliques, colourings and 4x4 sudoku.

use crate::refl::{cmp_holds, Ast, Bin, Cmp};
use rustc_hash::FxHashMap;

/// two-valued evaluation under a total assignment; quantifiers by brute force; no fixed points
pub fn eval_total(a: &Ast, env: &mut FxHashMap<String, bool>) -> bool {
    match a {
        Ast::True => true,
        Ast::False => false,
        Ast::Var(v) => *env.get(v).unwrap_or_else(|| panic!("machinery: unassigned variable {v}")),
        Ast::Ref(_) => false,
        Ast::Not(x) => !eval_total(x, env),
        Ast::Bin(op, l, r) => {
            let (l, r) = (eval_total(l, env), eval_total(r, env));
            match op {
                Bin::And => l && r,
                Bin::Or => l || r,
                Bin::Xor => l != r,
                Bin::Nor => !(l || r),
                Bin::Nand => !(l && r),
                Bin::Implies => !l || r,
                Bin::ImpliesInv => !r || l,
                Bin::Iff => l == r,
            }
        }
        Ast::Ite(c, t, e) => {
            if eval_total(c, env) {
                eval_total(t, env)
            } else {
                eval_total(e, env)
            }
        }
        Ast::CC(op, l, n) => {
            let c = l.iter().filter(|x| eval_total(x, env)).count() as u128;
            cmp_holds(*op, c, n.parse().unwrap_or(u128::MAX))
        }
        Ast::CV(op, l, r) => {
            let c = l.iter().filter(|x| eval_total(x, env)).count() as u128;
            let d = r.iter().filter(|x| eval_total(x, env)).count() as u128;
            cmp_holds(*op, c, d)
        }
        Ast::Q(ex, vs, b) => {
            // brute force over the bound variables (duplicates collapse)
            let mut uniq: Vec<String> = vec![];
            for v in vs {
                if !uniq.contains(v) {
                    uniq.push(v.clone());
                }
            }
            let saved: Vec<Option<bool>> = uniq.iter().map(|v| env.get(v).copied()).collect();
            let mut result = !*ex;
            for m in 0..(1usize << uniq.len()) {
                for (i, v) in uniq.iter().enumerate() {
                    env.insert(v.clone(), (m >> i) & 1 == 1);
                }
                let r = eval_total(b, env);
                if *ex && r {
                    result = true;
                    break;
                }
                if !*ex && !r {
                    result = false;
                    break;
                }
            }
            for (v, s) in uniq.iter().zip(saved) {
                match s {
                    Some(x) => {
                        env.insert(v.clone(), x);
                    }
                    None => {
                        env.remove(v);
                    }
                }
            }
            result
        }
        Ast::Fp(..) => panic!("machinery: fixed points are not supported by the puzzle evaluator"),
    }
}

/// Kleene evaluation under a partial assignment (None = unknown). Sound: Some(v) only if
/// every completion gives v. Quantified formulas are treated as unknown unless their body is
/// already determined.
pub fn eval3(a: &Ast, env: &FxHashMap<String, bool>) -> Option<bool> {
    match a {
        Ast::True => Some(true),
        Ast::False => Some(false),
        Ast::Var(v) => env.get(v).copied(),
        Ast::Ref(_) => Some(false),
        Ast::Not(x) => eval3(x, env).map(|b| !b),
        Ast::Bin(op, l, r) => {
            let (l, r) = (eval3(l, env), eval3(r, env));
            match op {
                Bin::And => and3(l, r),
                Bin::Or => or3(l, r),
                Bin::Nor => or3(l, r).map(|b| !b),
                Bin::Nand => and3(l, r).map(|b| !b),
                Bin::Implies => or3(l.map(|b| !b), r),
                Bin::ImpliesInv => or3(r.map(|b| !b), l),
                Bin::Xor => Some(l? != r?),
                Bin::Iff => Some(l? == r?),
            }
        }
        Ast::Ite(c, t, e) => match eval3(c, env) {
            Some(true) => eval3(t, env),
            Some(false) => eval3(e, env),
            None => {
                let (t, e) = (eval3(t, env), eval3(e, env));
                if t.is_some() && t == e {
                    t
                } else {
                    None
                }
            }
        },
        Ast::CC(op, l, n) => {
            let (lo, hi) = interval(l, env);
            cmp_interval(*op, lo, hi, n.parse().unwrap_or(u128::MAX), n.parse().unwrap_or(u128::MAX))
        }
        Ast::CV(op, l, r) => {
            let (lo, hi) = interval(l, env);
            let (rlo, rhi) = interval(r, env);
            cmp_interval(*op, lo, hi, rlo, rhi)
        }
        Ast::Q(_, vs, b) => {
            // variables bound here are unknown inside
            if vs.iter().any(|v| env.contains_key(v)) {
                let mut e2 = env.clone();
                for v in vs {
                    e2.remove(v);
                }
                eval3(b, &e2)
            } else {
                eval3(b, env)
            }
        }
        Ast::Fp(..) => None,
    }
}

fn and3(l: Option<bool>, r: Option<bool>) -> Option<bool> {
    match (l, r) {
        (Some(false), _) | (_, Some(false)) => Some(false),
        (Some(true), Some(true)) => Some(true),
        _ => None,
    }
}
fn or3(l: Option<bool>, r: Option<bool>) -> Option<bool> {
    match (l, r) {
        (Some(true), _) | (_, Some(true)) => Some(true),
        (Some(false), Some(false)) => Some(false),
        _ => None,
    }
}
fn interval(l: &[Ast], env: &FxHashMap<String, bool>) -> (u128, u128) {
    let mut lo = 0;
    let mut hi = 0;
    for x in l {
        match eval3(x, env) {
            Some(true) => {
                lo += 1;
                hi += 1;
            }
            Some(false) => {}
            None => hi += 1,
        }
    }
    (lo, hi)
}
/// count in [lo,hi] compared with a value in [rlo,rhi]
fn cmp_interval(op: Cmp, lo: u128, hi: u128, rlo: u128, rhi: u128) -> Option<bool> {
    let (always, never) = match op {
        Cmp::AtMost => (hi <= rlo, lo > rhi),
        Cmp::LessThan => (hi < rlo, lo >= rhi),
        Cmp::AtLeast => (lo >= rhi, hi < rlo),
        Cmp::MoreThan => (lo > rhi, hi <= rlo),
        Cmp::Exactly => (lo == hi && rlo == rhi && lo == rlo, hi < rlo || lo > rhi),
    };
    if always {
        Some(true)
    } else if never {
        Some(false)
    } else {
        None
    }
}

/// flatten the top-level conjunction
pub fn conjuncts(a: &Ast) -> Vec<&Ast> {
    let mut out = vec![];
    fn go<'a>(a: &'a Ast, out: &mut Vec<&'a Ast>) {
        if let Ast::Bin(Bin::And, l, r) = a {
            go(l, out);
            go(r, out);
        } else {
            out.push(a);
        }
    }
    go(a, &mut out);
    out
}

/// Exhaustive model enumeration by depth-first search over `vars` (must cover every free
/// variable): a branch is cut only when some top-level conjunct is already false under the
/// partial assignment (sound three-valued evaluation), so every model is found.
/// Returns None when more than `limit` models exist or the node budget is exceeded.
pub fn enumerate_models(a: &Ast, vars: &[String], limit: usize, node_budget: u64) -> Option<Vec<Vec<bool>>> {
    let cs = conjuncts(a);
    // conjuncts indexed by the variables they mention
    let mut by_var: Vec<Vec<usize>> = vec![vec![]; vars.len()];
    for (ci, c) in cs.iter().enumerate() {
        for n in c.names() {
            if let Some(i) = vars.iter().position(|v| *v == n) {
                by_var[i].push(ci);
            }
        }
    }
    let mut env: FxHashMap<String, bool> = FxHashMap::default();
    // conjuncts without variables must hold outright
    for c in &cs {
        if eval3(c, &env) == Some(false) {
            return Some(vec![]);
        }
    }
    let mut out = vec![];
    let mut nodes = 0u64;
    fn dfs(i: usize, vars: &[String], cs: &[&Ast], by_var: &[Vec<usize>], env: &mut FxHashMap<String, bool>, out: &mut Vec<Vec<bool>>, limit: usize, nodes: &mut u64, budget: u64) -> bool {
        *nodes += 1;
        if *nodes > budget {
            return false;
        }
        if i == vars.len() {
            // every conjunct must be definitely true now
            let mut e2 = env.clone();
            if cs.iter().all(|c| eval_total(c, &mut e2)) {
                if out.len() >= limit {
                    return false;
                }
                out.push(vars.iter().map(|v| env[v]).collect());
            }
            return true;
        }
        for val in [false, true] {
            env.insert(vars[i].clone(), val);
            let dead = by_var[i].iter().any(|ci| eval3(cs[*ci], env) == Some(false));
            if !dead && !dfs(i + 1, vars, cs, by_var, env, out, limit, nodes, budget) {
                env.remove(&vars[i]);
                return false;
            }
        }
        env.remove(&vars[i]);
        true
    }
    if dfs(0, vars, &cs, &by_var, &mut env, &mut out, limit, &mut nodes, node_budget) {
        Some(out)
    } else {
        None
    }
}

// ---------------------------------------------------------------------------------------
// brute-force reference solvers

/// all placements of n mutually non-attacking queens, each as the sorted list of squares
/// (row * n + column)
pub fn queens_solutions(n: usize) -> Vec<Vec<usize>> {
    fn go(n: usize, row: usize, cols: &mut Vec<usize>, out: &mut Vec<Vec<usize>>) {
        if row == n {
            out.push(cols.iter().enumerate().map(|(r, c)| r * n + c).collect());
            return;
        }
        for c in 0..n {
            if cols.iter().enumerate().all(|(r, &cc)| cc != c && (row - r) as isize != (c as isize - cc as isize).abs()) {
                cols.push(c);
                go(n, row + 1, cols, out);
                cols.pop();
            }
        }
    }
    let mut out = vec![];
    go(n, 0, &mut vec![], &mut out);
    out
}

pub fn queens_attack(n: usize, p: usize, q: usize) -> bool {
    let (r1, c1, r2, c2) = (p / n, p % n, q / n, q % n);
    p != q && (r1 == r2 || c1 == c2 || (r1 as isize - r2 as isize).abs() == (c1 as isize - c2 as isize).abs())
}

/// all valid completed 4x4 sudoku grids (r = 2), row-major digits 1..=4
pub fn sudoku4_grids() -> Vec<Vec<u8>> {
    fn ok(g: &[u8], pos: usize, d: u8) -> bool {
        let (r, c) = (pos / 4, pos % 4);
        for i in 0..pos {
            let (ri, ci) = (i / 4, i % 4);
            if g[i] == d && (ri == r || ci == c || (ri / 2 == r / 2 && ci / 2 == c / 2)) {
                return false;
            }
        }
        true
    }
    fn go(g: &mut Vec<u8>, out: &mut Vec<Vec<u8>>) {
        if g.len() == 16 {
            out.push(g.clone());
            return;
        }
        for d in 1..=4u8 {
            if ok(g, g.len(), d) {
                g.push(d);
                go(g, out);
                g.pop();
            }
        }
    }
    let mut out = vec![];
    go(&mut vec![], &mut out);
    out
}

/// is `grid` (row-major, digits 1..=sq) a valid completed sudoku of root r
pub fn sudoku_valid(r: usize, grid: &[u8]) -> bool {
    let sq = r * r;
    if grid.len() != sq * sq || grid.iter().any(|d| *d == 0 || *d as usize > sq) {
        return false;
    }
    let full = |cells: Vec<usize>| {
        let mut seen = vec![false; sq + 1];
        cells.iter().all(|c| !std::mem::replace(&mut seen[grid[*c] as usize], true))
    };
    for i in 0..sq {
        if !full((0..sq).map(|j| i * sq + j).collect()) || !full((0..sq).map(|j| j * sq + i).collect()) {
            return false;
        }
    }
    for bi in 0..r {
        for bj in 0..r {
            if !full((0..sq).map(|l| (bi * r + l / r) * sq + bj * r + l % r).collect()) {
                return false;
            }
        }
    }
    true
}

#[cfg(test)]
mod tests {
    use super::*;
    #[test]
    fn solver_counts() {
        assert_eq!(queens_solutions(1).len(), 1);
        assert_eq!(queens_solutions(4).len(), 2);
        assert_eq!(queens_solutions(6).len(), 4);
        assert_eq!(queens_solutions(8).len(), 92);
        assert_eq!(sudoku4_grids().len(), 288);
        assert!(sudoku4_grids().iter().all(|g| sudoku_valid(2, g)));
    }
    #[test]
    fn dfs_enumerator_matches_brute_force() {
        let a = crate::refl::parse("[a, b, c] = 1 & -(a & b) & [c, d] <= 1 & (d | a) & true").unwrap();
        let vars: Vec<String> = ["a", "b", "c", "d"].iter().map(|s| s.to_string()).collect();
        let ms = enumerate_models(&a, &vars, 100, 1_000_000).unwrap();
        let mut bf = vec![];
        for m in 0..16usize {
            let mut env: FxHashMap<String, bool> = FxHashMap::default();
            for (i, v) in vars.iter().enumerate() {
                env.insert(v.clone(), (m >> i) & 1 == 1);
            }
            if eval_total(&a, &mut env) {
                bf.push((0..4).map(|i| (m >> i) & 1 == 1).collect::<Vec<bool>>());
            }
        }
        let mut ms2 = ms.clone();
        ms2.sort();
        bf.sort();
        assert_eq!(ms2, bf);
    }
}
