//! Bridges between the implementation's types and the reference model's types.

use crate::refl::{Ast, Bin, Cmp, Tok};
use crate::robdd;
use crate::runner::guarded;
use rsbdd::bdd::BDD;
use rsbdd::parser::*;
use rsbdd::NamedSymbol;
use std::rc::Rc;

/// None for an operator this harness does not know (a change may add one)
pub fn conv_bin(op: BinaryOperator) -> Option<Bin> {
    Some(match op {
        BinaryOperator::And => Bin::And,
        BinaryOperator::Or => Bin::Or,
        BinaryOperator::Xor => Bin::Xor,
        BinaryOperator::Nor => Bin::Nor,
        BinaryOperator::Nand => Bin::Nand,
        BinaryOperator::Implies => Bin::Implies,
        BinaryOperator::ImpliesInv => Bin::ImpliesInv,
        BinaryOperator::Iff => Bin::Iff,
        #[allow(unreachable_patterns)]
        _ => return None,
    })
}
pub fn impl_bin(op: Bin) -> BinaryOperator {
    match op {
        Bin::And => BinaryOperator::And,
        Bin::Or => BinaryOperator::Or,
        Bin::Xor => BinaryOperator::Xor,
        Bin::Nor => BinaryOperator::Nor,
        Bin::Nand => BinaryOperator::Nand,
        Bin::Implies => BinaryOperator::Implies,
        Bin::ImpliesInv => BinaryOperator::ImpliesInv,
        Bin::Iff => BinaryOperator::Iff,
    }
}
pub fn conv_cmp(o: CountableOperator) -> Option<Cmp> {
    Some(match o {
        CountableOperator::AtMost => Cmp::AtMost,
        CountableOperator::LessThan => Cmp::LessThan,
        CountableOperator::AtLeast => Cmp::AtLeast,
        CountableOperator::MoreThan => Cmp::MoreThan,
        CountableOperator::Exactly => Cmp::Exactly,
        #[allow(unreachable_patterns)]
        _ => return None,
    })
}
pub fn impl_cmp(o: Cmp) -> CountableOperator {
    match o {
        Cmp::AtMost => CountableOperator::AtMost,
        Cmp::LessThan => CountableOperator::LessThan,
        Cmp::AtLeast => CountableOperator::AtLeast,
        Cmp::MoreThan => CountableOperator::MoreThan,
        Cmp::Exactly => CountableOperator::Exactly,
    }
}

/// implementation syntax tree -> reference AST (variables by name). `Subtree` nodes have
/// no textual form and map to None.
pub fn conv(s: &SymbolicBDD) -> Option<Ast> {
    let bx = |x: &SymbolicBDD| conv(x).map(Box::new);
    let list = |l: &Vec<SymbolicBDD>| l.iter().map(conv).collect::<Option<Vec<Ast>>>();
    Some(match s {
        SymbolicBDD::False => Ast::False,
        SymbolicBDD::True => Ast::True,
        SymbolicBDD::Var(v) => Ast::Var(v.name.as_ref().clone()),
        SymbolicBDD::Reference(r) => Ast::Ref(r.clone()),
        SymbolicBDD::Not(x) => Ast::Not(bx(x)?),
        SymbolicBDD::Quantifier(q, vs, b) => Ast::Q(match q { QuantifierType::Exists => true, QuantifierType::Forall => false, #[allow(unreachable_patterns)] _ => return None }, vs.iter().map(|v| v.name.as_ref().clone()).collect(), bx(b)?),
        SymbolicBDD::CountableConst(op, l, n) => Ast::CC(conv_cmp(*op)?, list(l)?, n.to_string()),
        SymbolicBDD::CountableVariable(op, l, r) => Ast::CV(conv_cmp(*op)?, list(l)?, list(r)?),
        SymbolicBDD::FixedPoint(v, g, .., b) => Ast::Fp(v.name.as_ref().clone(), fp_flag_is_gfp(*g), bx(b)?),
        SymbolicBDD::Ite(c, t, e) => Ast::Ite(bx(c)?, bx(t)?, bx(e)?),
        SymbolicBDD::BinaryOp(op, l, r) => Ast::Bin(conv_bin(*op)?, bx(l)?, bx(r)?),
        SymbolicBDD::Subtree(_) => return None,
        // a node kind this harness does not know: no reference form
        #[allow(unreachable_patterns)]
        _ => return None,
    })
}

thread_local! {
    static FP_TRUE_IS_GFP: std::cell::Cell<Option<bool>> = const { std::cell::Cell::new(None) };
}

/// What the boolean of `SymbolicBDD::FixedPoint` MEANS is defined by what the evaluator does
/// with it, not by this harness: calibrated once by parsing and evaluating `gfp X # X`
/// (true for a greatest, false for a least fixed point). If the probe cannot be evaluated the
/// pinned commit's convention (true = greatest) is assumed.
pub fn fp_flag_is_gfp(flag: bool) -> bool {
    let true_is_gfp = FP_TRUE_IS_GFP.with(|c| {
        if let Some(v) = c.get() {
            return v;
        }
        let probe = guarded(|| {
            let p = ParsedFormula::new(&mut std::io::BufReader::new("gfp X # X".as_bytes()), None).ok()?;
            let SymbolicBDD::FixedPoint(_, b, ..) = &p.bdd else { return None };
            let b = *b;
            rsbdd::verif_hooks::set_fp_fuel(Some(DEFAULT_FUEL));
            let r = p.eval();
            rsbdd::verif_hooks::set_fp_fuel(None);
            match r.as_ref() {
                BDD::True => Some(b),
                BDD::False => Some(!b),
                _ => None,
            }
        });
        rsbdd::verif_hooks::set_fp_fuel(None);
        let v = probe.ok().flatten().unwrap_or(true);
        c.set(Some(v));
        v
    });
    flag == true_is_gfp
}

/// implementation token -> reference token (None for Eof)
pub fn conv_tok(t: &SymbolicBDDToken) -> Option<Tok> {
    use SymbolicBDDToken as S;
    Some(match t {
        S::Var(v) => Tok::Var(v.name.as_ref().clone()),
        S::Countable(n) => Tok::Num(n.to_string()),
        S::Reference(r) => Tok::Ref(r.clone()),
        S::And => Tok::And,
        S::Or => Tok::Or,
        S::Not => Tok::Not,
        S::Xor => Tok::Xor,
        S::Nor => Tok::Nor,
        S::Nand => Tok::Nand,
        S::Implies => Tok::Implies,
        S::ImpliesInv => Tok::ImpliesInv,
        S::Iff => Tok::Iff,
        S::If => Tok::If,
        S::Then => Tok::Then,
        S::Else => Tok::Else,
        S::Exists => Tok::Exists,
        S::Forall => Tok::Forall,
        S::Eq => Tok::Eq,
        S::Geq => Tok::Geq,
        S::Gt => Tok::Gt,
        S::Lt => Tok::Lt,
        S::OpenParen => Tok::LP,
        S::CloseParen => Tok::RP,
        S::OpenSquare => Tok::LS,
        S::CloseSquare => Tok::RS,
        S::Comma => Tok::Comma,
        S::False => Tok::False,
        S::True => Tok::True,
        S::LFP => Tok::Lfp,
        S::GFP => Tok::Gfp,
        S::Hash => Tok::Hash,
        S::Eof => return None,
        // a token kind this harness does not know (the enum is not #[non_exhaustive], but a
        // change may add one): mapped to a sentinel that makes callers skip the token-level
        // comparison and rely on the parse-level one
        #[allow(unreachable_patterns)]
        other => Tok::Ref(format!("{UNKNOWN_TOKEN_KIND}{other:?}")),
    })
}

pub const UNKNOWN_TOKEN_KIND: &str = "\u{0}unknown token kind ";

#[derive(Debug)]
pub enum ImplParse {
    Panic(String),
    Err(String),
    Ok(Box<ParsedFormula>),
}

pub fn impl_parse_bytes(bytes: &[u8], ordering: Option<Vec<NamedSymbol>>) -> ImplParse {
    match guarded(|| ParsedFormula::new(&mut std::io::BufReader::new(bytes), ordering)) {
        Err(p) => ImplParse::Panic(p),
        Ok(Err(e)) => ImplParse::Err(e.to_string()),
        Ok(Ok(p)) => ImplParse::Ok(Box::new(p)),
    }
}
pub fn impl_parse(text: &str) -> ImplParse {
    impl_parse_bytes(text.as_bytes(), None)
}

pub fn impl_tokenize(bytes: &[u8]) -> Result<Result<Vec<SymbolicBDDToken>, String>, String> {
    guarded(|| SymbolicBDD::tokenize(&mut std::io::BufReader::new(bytes), None).map_err(|e| e.to_string()))
}

pub const DEFAULT_FUEL: u64 = 20_000;

/// evaluate with a deterministic fixed-point budget; Err = panic message
pub fn impl_eval(p: &ParsedFormula) -> Result<Rc<BDD<NamedSymbol>>, String> {
    rsbdd::verif_hooks::set_fp_fuel(Some(DEFAULT_FUEL));
    let r = guarded(|| p.eval());
    rsbdd::verif_hooks::set_fp_fuel(None);
    r
}

/// truth table of a NamedSymbol diagram, variables addressed by NAME
pub fn tt_named(b: &BDD<NamedSymbol>, vars: &[String]) -> Result<u64, String> {
    robdd::tt_of(b, vars.len(), &|s: &NamedSymbol| vars.iter().position(|x| x == s.name.as_ref()))
}

pub fn names_of(v: &[NamedSymbol]) -> Vec<String> {
    v.iter().map(|s| s.name.as_ref().clone()).collect()
}

pub fn sym(name: &str, id: usize) -> NamedSymbol {
    NamedSymbol { name: Rc::new(name.to_string()), id }
}
