//! Reader for the Graphviz text the `dot` crate writes (one statement per line).

#[derive(Debug, Clone, PartialEq, Eq)]
pub struct DotGraph {
    pub name: String,
    /// (id, label) in file order
    pub nodes: Vec<(String, String)>,
    /// (from, to, label) in file order
    pub edges: Vec<(String, String, String)>,
}

/// inverse of Rust's `escape_default` as used by the dot crate for labels
pub fn unescape(s: &str) -> Result<String, String> {
    let cs: Vec<char> = s.chars().collect();
    let mut out = String::new();
    let mut i = 0;
    while i < cs.len() {
        if cs[i] != '\\' {
            out.push(cs[i]);
            i += 1;
            continue;
        }
        i += 1;
        match cs.get(i) {
            Some('n') => out.push('\n'),
            Some('r') => out.push('\r'),
            Some('t') => out.push('\t'),
            Some('\\') => out.push('\\'),
            Some('\'') => out.push('\''),
            Some('"') => out.push('"'),
            Some('0') => out.push('\0'),
            Some('u') => {
                if cs.get(i + 1) != Some(&'{') {
                    return Err(format!("bad \\u escape in label {s}"));
                }
                let mut j = i + 2;
                let mut hex = String::new();
                while j < cs.len() && cs[j] != '}' {
                    hex.push(cs[j]);
                    j += 1;
                }
                let cp = u32::from_str_radix(&hex, 16).map_err(|_| format!("bad \\u escape in label {s}"))?;
                out.push(char::from_u32(cp).ok_or_else(|| format!("bad code point in label {s}"))?);
                i = j;
            }
            o => return Err(format!("unknown escape {:?} in label {s}", o)),
        }
        i += 1;
    }
    Ok(out)
}

pub fn parse(text: &str) -> Result<DotGraph, String> {
    let mut lines = text.lines();
    let first = lines.next().ok_or("empty dot file")?;
    let name = first.strip_prefix("digraph ").and_then(|r| r.strip_suffix(" {")).ok_or_else(|| format!("unexpected first line: {first}"))?.to_string();
    let mut g = DotGraph { name, nodes: vec![], edges: vec![] };
    let mut closed = false;
    for l in lines {
        let t = l.trim();
        if t.is_empty() {
            continue;
        }
        if t == "}" {
            closed = true;
            continue;
        }
        if closed {
            return Err(format!("text after the closing brace: {l}"));
        }
        let (head, rest) = t.split_once("[label=\"").ok_or_else(|| format!("statement without label: {l}"))?;
        let label = rest.strip_suffix("\"];").ok_or_else(|| format!("unterminated statement: {l}"))?;
        let label = unescape(label)?;
        if let Some((a, b)) = head.split_once(" -> ") {
            g.edges.push((a.trim().to_string(), b.trim().to_string(), label));
        } else {
            g.nodes.push((head.trim().to_string(), label));
        }
    }
    if !closed {
        return Err("missing closing brace".into());
    }
    Ok(g)
}
