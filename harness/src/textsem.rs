//! Text-level oracle shared by C01/C04/C05/C06/C09: formula text -> real parser -> real
//! evaluator, compared with the reference denotation of the AST the text was printed from.

use crate::conv::*;
use crate::refl::{self, Ast, Sem, Style, Tok};
use crate::runner::Ctx;
use rsbdd::bdd::BDD;
use rsbdd::parser::ParsedFormula;
use rsbdd::NamedSymbol;
use serde_json::{json, Value};
use std::rc::Rc;

pub struct TextOutcome {
    pub parsed: Box<ParsedFormula>,
    pub result: Option<Rc<BDD<NamedSymbol>>>,
    pub names: Vec<String>,
    pub ref_tt: Option<u64>,
}

pub fn text_case(text: &str) -> Value {
    json!({"part": "text", "text": text})
}

/// Parse `text` with the real parser, demand the tree `ast`, evaluate, compare the truth
/// table (variables by name) with the reference. Violations are recorded under `tag`.
/// Returns None when a violation was recorded or the formula is out of scope.
pub fn check_text(ctx: &mut Ctx, tag: &str, ast: &Ast, text: &str) -> Option<TextOutcome> {
    ctx.begin_case(|| text_case(text));
    ctx.count("evaluations", 1);
    let key = || format!("{tag} text: {text}");
    let p = match impl_parse(text) {
        ImplParse::Panic(m) => {
            ctx.violation(key(), format!("parser panicked: {m}"), text_case(text));
            return None;
        }
        ImplParse::Err(e) => {
            ctx.violation(key(), format!("well-formed formula rejected: {e}"), text_case(text));
            return None;
        }
        ImplParse::Ok(p) => p,
    };
    match conv(&p.bdd) {
        Some(t) if t == *ast => {}
        t => {
            ctx.violation(key(), format!("text was not read as the tree the grammar assigns: expected {:?}, parser built {:?}", ast, t), text_case(text));
            return None;
        }
    }
    let names = ast.names();
    if names.len() > 6 || ast.has_ref() {
        ctx.count("out_of_scope", 1);
        return None;
    }
    let sem = Sem::new(&names);
    let ref_tt = sem.eval_closed(ast);
    let Some(want) = ref_tt else {
        ctx.count("divergent_fixed_point_skipped", 1);
        return Some(TextOutcome { parsed: p, result: None, names, ref_tt: None });
    };
    let res = match impl_eval(&p) {
        Err(m) if m.contains(rsbdd::verif_hooks::FUEL_EXHAUSTED_MARKER) => {
            ctx.violation(key(), format!("evaluation did not terminate within {DEFAULT_FUEL} fixed-point iterations although every fixed point converges in the reference model"), text_case(text));
            return None;
        }
        Err(m) => {
            ctx.violation(key(), format!("evaluation panicked: {m}"), text_case(text));
            return None;
        }
        Ok(r) => r,
    };
    match tt_named(&res, &names) {
        Err(e) => {
            ctx.violation(key(), e, text_case(text));
            return None;
        }
        Ok(got) => {
            if got != want {
                ctx.violation(
                    key(),
                    format!("result is true under assignments {got:#x} but the documented meaning gives {want:#x} (variables {:?}, bit i of an assignment index = i-th variable; result {})", names, crate::robdd::show(&res)),
                    text_case(text),
                );
                return None;
            }
            if res.is_true() != (want == sem.full()) || res.is_false() != (want == 0) {
                ctx.violation(key(), "result is not the constant leaf although the formula is valid / unsatisfiable (or vice versa)".into(), text_case(text));
                return None;
            }
        }
    }
    ctx.count("semantics_agree", 1);
    Some(TextOutcome { parsed: p, result: Some(res), names, ref_tt })
}

/// number of spelling combinations of a token list
pub fn spelling_combinations(toks: &[Tok]) -> u64 {
    toks.iter().map(|t| refl::spellings(t).len().max(1) as u64).product()
}

/// render with the c-th spelling combination (mixed radix over the tokens that have aliases)
pub fn render_combo(toks: &[Tok], mut c: u64) -> String {
    refl::render(toks, &mut |n| {
        let r = (c % n as u64) as usize;
        c /= n as u64;
        r
    })
}

/// the standard set of renderings of one AST: minimal parentheses (canonical spelling),
/// fully parenthesised with cycling aliases, trailing commas with other aliases
pub fn renderings(ast: &Ast, salt: u64, all_combos: bool) -> Vec<String> {
    let mut out = vec![];
    let min = refl::to_tokens(ast, refl::MINIMAL);
    if all_combos {
        for c in 0..spelling_combinations(&min) {
            out.push(render_combo(&min, c));
        }
    } else {
        out.push(refl::render_canon(&min));
        let n = spelling_combinations(&min);
        if n > 1 {
            out.push(render_combo(&min, 1 + salt % (n - 1)));
        }
    }
    let full = refl::to_tokens(ast, refl::FULL);
    let n = spelling_combinations(&full);
    out.push(render_combo(&full, salt.wrapping_mul(2654435761) % n));
    let tc = refl::to_tokens(ast, Style { full_parens: false, trailing_comma: true });
    if tc != min {
        let n = spelling_combinations(&tc);
        out.push(render_combo(&tc, salt.wrapping_mul(40503) % n));
    }
    out.dedup();
    out
}

pub fn replay_text(ctx: &mut Ctx, tag: &str, case: &Value) -> Option<TextOutcome> {
    let text = case["text"].as_str().unwrap_or("");
    match refl::parse(text) {
        Ok(ast) => check_text(ctx, tag, &ast, text),
        Err(e) => {
            ctx.note(format!("replay text is not a sentence of the reference grammar: {e}"));
            None
        }
    }
}

/// like `check_text` for formulas with 7..16 names (bit-vector reference); returns true when
/// the real evaluation agrees with the reference
pub fn check_text_big(ctx: &mut Ctx, tag: &str, ast: &Ast, text: &str) -> bool {
    ctx.begin_case(|| text_case(text));
    ctx.count("evaluations", 1);
    let key = || format!("{tag} text: {text}");
    let p = match impl_parse(text) {
        ImplParse::Ok(p) => p,
        ImplParse::Err(e) => {
            ctx.violation(key(), format!("well-formed formula rejected: {e}"), text_case(text));
            return false;
        }
        ImplParse::Panic(m) => {
            ctx.violation(key(), format!("parser panicked: {m}"), text_case(text));
            return false;
        }
    };
    if conv(&p.bdd).as_ref() != Some(ast) {
        ctx.violation(key(), "text was not read as the tree the grammar assigns".into(), text_case(text));
        return false;
    }
    let names = ast.names();
    let sem = crate::bigsem::BigSem::new(&names);
    let Some(want) = sem.eval(ast, &std::collections::BTreeMap::new()) else {
        ctx.count("divergent_fixed_point_skipped", 1);
        return false;
    };
    let res = match impl_eval(&p) {
        Err(m) if m.contains(rsbdd::verif_hooks::FUEL_EXHAUSTED_MARKER) => {
            ctx.violation(key(), format!("evaluation did not terminate within {DEFAULT_FUEL} fixed-point iterations although every fixed point converges in the reference model"), text_case(text));
            return false;
        }
        Err(m) => {
            ctx.violation(key(), format!("evaluation panicked: {m}"), text_case(text));
            return false;
        }
        Ok(r) => r,
    };
    match sem.tt_named(&res) {
        Err(e) => {
            ctx.violation(key(), e, text_case(text));
            false
        }
        Ok(got) => {
            if got != want {
                let a = (0..sem.n()).find(|a| crate::bigsem::BigSem::get(&got, *a) != crate::bigsem::BigSem::get(&want, *a)).unwrap_or(0);
                ctx.violation(key(), format!("result differs from the documented meaning, e.g. under assignment {a:#b} of {:?} (bit i = i-th name): result {}, reference {}", names, crate::bigsem::BigSem::get(&got, a), crate::bigsem::BigSem::get(&want, a)), text_case(text));
                return false;
            }
            let all = sem.konst(true);
            let none = sem.konst(false);
            if res.is_true() != (want == all) || res.is_false() != (want == none) {
                ctx.violation(key(), "result is not the constant leaf although the formula is valid / unsatisfiable (or vice versa)".into(), text_case(text));
                return false;
            }
            ctx.count("semantics_agree", 1);
            true
        }
    }
}

/// k-bit counter reachability: a least fixed point that needs 2^k refinement rounds,
///   lfp Z # ( s = 0 | exists t # ( s = t & exists s # ( Z & t = s + 1 ) ) )
pub fn counter_reachability(k: usize) -> Ast {
    use crate::refl::Bin;
    let s: Vec<String> = (0..k).map(|i| format!("s{i}")).collect();
    let t: Vec<String> = (0..k).map(|i| format!("t{i}")).collect();
    let conj = |v: Vec<Ast>| v.into_iter().reduce(|a, b| Ast::bin(Bin::And, a, b)).unwrap_or(Ast::True);
    let init = conj(s.iter().map(|v| Ast::not(Ast::var(v))).collect());
    let same = conj((0..k).map(|i| Ast::bin(Bin::Iff, Ast::var(&s[i]), Ast::var(&t[i]))).collect());
    let succ = conj(
        (0..k)
            .map(|i| {
                let carry = conj((0..i).map(|j| Ast::var(&s[j])).collect());
                Ast::bin(Bin::Iff, Ast::var(&t[i]), if i == 0 { Ast::not(Ast::var(&s[0])) } else { Ast::bin(Bin::Xor, Ast::var(&s[i]), carry) })
            })
            .collect(),
    );
    let inner = Ast::Q(true, s.clone(), Box::new(Ast::bin(Bin::And, Ast::var("Z"), succ)));
    let step = Ast::Q(true, t.clone(), Box::new(Ast::bin(Bin::And, same, inner)));
    Ast::fp("Z", false, Ast::bin(Bin::Or, init, step))
}
