//! Text-level oracle shared by C01/C04/C05/C06/C09: formula text -> real parser -> real
//! evaluator, compared with the reference denotation of the AST the text was printed from.

use crate::conv::*;
use crate::refl::{self, Ast, Sem, Style, Tok};
use crate::runner::Ctx;
use rsbdd::bdd::BDD;
use rsbdd::parser::ParsedFormula;
use rsbdd::NamedSymbol;
use serde_json::{json, Value};
use std::rc::Rc;

pub struct TextOutcome {
    pub parsed: Box<ParsedFormula>,
    pub result: Option<Rc<BDD<NamedSymbol>>>,
    pub names: Vec<String>,
    pub ref_tt: Option<u64>,
}

pub fn text_case(text: &str) -> Value {
    json!({"part": "text", "text": text})
}

/// Parse `text` with the real parser, demand the tree `ast`, evaluate, compare the truth
/// table (variables by name) with the reference. Violations are recorded under `tag`.
/// Returns None when a violation was recorded or the formula is out of scope.
pub fn check_text(ctx: &mut Ctx, tag: &str, ast: &Ast, text: &str) -> Option<TextOutcome> {
    ctx.begin_case(|| text_case(text));
    ctx.count("evaluations", 1);
    let key = || format!("{tag} text: {text}");
    let p = match impl_parse(text) {
        ImplParse::Panic(m) => {
            ctx.violation(key(), format!("parser panicked: {m}"), text_case(text));
            return None;
        }
        ImplParse::Err(e) => {
            ctx.violation(key(), format!("well-formed formula rejected: {e}"), text_case(text));
            return None;
        }
        ImplParse::Ok(p) => p,
    };
    match conv(&p.bdd) {
        Some(t) if t == *ast => {}
        t => {
            ctx.violation(key(), format!("text was not read as the tree the grammar assigns: expected {:?}, parser built {:?}", ast, t), text_case(text));
            return None;
        }
    }
    let names = ast.names();
    if names.len() > 6 || ast.has_ref() {
        ctx.count("out_of_scope", 1);
        return None;
    }
    let sem = Sem::new(&names);
    let ref_tt = sem.eval_closed(ast);
    let Some(want) = ref_tt else {
        ctx.count("divergent_fixed_point_skipped", 1);
        return Some(TextOutcome { parsed: p, result: None, names, ref_tt: None });
    };
    let res = match impl_eval(&p) {
        Err(m) if m.contains(rsbdd::verif_hooks::FUEL_EXHAUSTED_MARKER) => {
            ctx.violation(key(), format!("evaluation did not terminate within {DEFAULT_FUEL} fixed-point iterations although every fixed point converges in the reference model"), text_case(text));
            return None;
        }
        Err(m) => {
            ctx.violation(key(), format!("evaluation panicked: {m}"), text_case(text));
            return None;
        }
        Ok(r) => r,
    };
    match tt_named(&res, &names) {
        Err(e) => {
            ctx.violation(key(), e, text_case(text));
            return None;
        }
        Ok(got) => {
            if got != want {
                ctx.violation(
                    key(),
                    format!("result is true under assignments {got:#x} but the documented meaning gives {want:#x} (variables {:?}, bit i of an assignment index = i-th variable; result {})", names, crate::robdd::show(&res)),
                    text_case(text),
                );
                return None;
            }
            if res.is_true() != (want == sem.full()) || res.is_false() != (want == 0) {
                ctx.violation(key(), "result is not the constant leaf although the formula is valid / unsatisfiable (or vice versa)".into(), text_case(text));
                return None;
            }
        }
    }
    ctx.count("semantics_agree", 1);
    Some(TextOutcome { parsed: p, result: Some(res), names, ref_tt })
}

/// number of spelling combinations of a token list
pub fn spelling_combinations(toks: &[Tok]) -> u64 {
    toks.iter().map(|t| refl::spellings(t).len().max(1) as u64).product()
}

/// render with the c-th spelling combination (mixed radix over the tokens that have aliases)
pub fn render_combo(toks: &[Tok], mut c: u64) -> String {
    refl::render(toks, &mut |n| {
        let r = (c % n as u64) as usize;
        c /= n as u64;
        r
    })
}

/// the standard set of renderings of one AST: minimal parentheses (canonical spelling),
/// fully parenthesised with cycling aliases, trailing commas with other aliases
pub fn renderings(ast: &Ast, salt: u64, all_combos: bool) -> Vec<String> {
    let mut out = vec![];
    let min = refl::to_tokens(ast, refl::MINIMAL);
    if all_combos {
        for c in 0..spelling_combinations(&min) {
            out.push(render_combo(&min, c));
        }
    } else {
        out.push(refl::render_canon(&min));
        let n = spelling_combinations(&min);
        if n > 1 {
            out.push(render_combo(&min, 1 + salt % (n - 1)));
        }
    }
    let full = refl::to_tokens(ast, refl::FULL);
    let n = spelling_combinations(&full);
    out.push(render_combo(&full, salt.wrapping_mul(2654435761) % n));
    let tc = refl::to_tokens(ast, Style { full_parens: false, trailing_comma: true });
    if tc != min {
        let n = spelling_combinations(&tc);
        out.push(render_combo(&tc, salt.wrapping_mul(40503) % n));
    }
    out.dedup();
    out
}

pub fn replay_text(ctx: &mut Ctx, tag: &str, case: &Value) -> Option<TextOutcome> {
    let text = case["text"].as_str().unwrap_or("");
    match refl::parse(text) {
        Ok(ast) => check_text(ctx, tag, &ast, text),
        Err(e) => {
            ctx.note(format!("replay text is not a sentence of the reference grammar: {e}"));
            None
        }
    }
}

/// like `check_text` for formulas with 7..16 names (bit-vector reference); returns true when
/// the real evaluation agrees with the reference
pub fn check_text_big(ctx: &mut Ctx, tag: &str, ast: &Ast, text: &str) -> bool {
    ctx.begin_case(|| text_case(text));
    ctx.count("evaluations", 1);
    let key = || format!("{tag} text: {text}");
    let p = match impl_parse(text) {
        ImplParse::Ok(p) => p,
        ImplParse::Err(e) => {
            ctx.violation(key(), format!("well-formed formula rejected: {e}"), text_case(text));
            return false;
        }
        ImplParse::Panic(m) => {
            ctx.violation(key(), format!("parser panicked: {m}"), text_case(text));
            return false;
        }
    };
    if conv(&p.bdd).as_ref() != Some(ast) {
        ctx.violation(key(), "text was not read as the tree the grammar assigns".into(), text_case(text));
        return false;
    }
    let names = ast.names();
    let sem = crate::bigsem::BigSem::new(&names);
    let Some(want) = sem.eval(ast, &std::collections::BTreeMap::new()) else {
        ctx.count("divergent_fixed_point_skipped", 1);
        return false;
    };
    let res = match impl_eval(&p) {
        Err(m) if m.contains(rsbdd::verif_hooks::FUEL_EXHAUSTED_MARKER) => {
            ctx.violation(key(), format!("evaluation did not terminate within {DEFAULT_FUEL} fixed-point iterations although every fixed point converges in the reference model"), text_case(text));
            return false;
        }
        Err(m) => {
            ctx.violation(key(), format!("evaluation panicked: {m}"), text_case(text));
            return false;
        }
        Ok(r) => r,
    };
    match sem.tt_named(&res) {
        Err(e) => {
            ctx.violation(key(), e, text_case(text));
            false
        }
        Ok(got) => {
            if got != want {
                let a = (0..sem.n()).find(|a| crate::bigsem::BigSem::get(&got, *a) != crate::bigsem::BigSem::get(&want, *a)).unwrap_or(0);
                ctx.violation(key(), format!("result differs from the documented meaning, e.g. under assignment {a:#b} of {:?} (bit i = i-th name): result {}, reference {}", names, crate::bigsem::BigSem::get(&got, a), crate::bigsem::BigSem::get(&want, a)), text_case(text));
                return false;
            }
            let all = sem.konst(true);
            let none = sem.konst(false);
            if res.is_true() != (want == all) || res.is_false() != (want == none) {
                ctx.violation(key(), "result is not the constant leaf although the formula is valid / unsatisfiable (or vice versa)".into(), text_case(text));
                return false;
            }
            ctx.count("semantics_agree", 1);
            true
        }
    }
}

/// k-bit counter reachability: a least fixed point that needs 2^k refinement rounds,
///   lfp Z # ( s = 0 | exists t # ( s = t & exists s # ( Z & t = s + 1 ) ) )
pub fn counter_reachability(k: usize) -> Ast {
    use crate::refl::Bin;
    let s: Vec<String> = (0..k).map(|i| format!("s{i}")).collect();
    let t: Vec<String> = (0..k).map(|i| format!("t{i}")).collect();
    let conj = |v: Vec<Ast>| v.into_iter().reduce(|a, b| Ast::bin(Bin::And, a, b)).unwrap_or(Ast::True);
    let init = conj(s.iter().map(|v| Ast::not(Ast::var(v))).collect());
    let same = conj((0..k).map(|i| Ast::bin(Bin::Iff, Ast::var(&s[i]), Ast::var(&t[i]))).collect());
    let succ = conj(
        (0..k)
            .map(|i| {
                let carry = conj((0..i).map(|j| Ast::var(&s[j])).collect());
                Ast::bin(Bin::Iff, Ast::var(&t[i]), if i == 0 { Ast::not(Ast::var(&s[0])) } else { Ast::bin(Bin::Xor, Ast::var(&s[i]), carry) })
            })
            .collect(),
    );
    let inner = Ast::Q(true, s.clone(), Box::new(Ast::bin(Bin::And, Ast::var("Z"), succ)));
    let step = Ast::Q(true, t.clone(), Box::new(Ast::bin(Bin::And, same, inner)));
    Ast::fp("Z", false, Ast::bin(Bin::Or, init, step))
}

/// k-bit counter over k names only: a value is in Z iff it is 0 or its predecessor is in Z.
/// The least fixed point is `true` and needs 2^k rounds; the body is monotone.
pub fn counter_predecessor(k: usize) -> Ast {
    use crate::refl::Bin;
    let b: Vec<String> = (0..k).map(|i| format!("b{i}")).collect();
    let conj = |v: Vec<Ast>| v.into_iter().reduce(|a, c| Ast::bin(Bin::And, a, c)).unwrap_or(Ast::True);
    let mut body = conj(b.iter().map(|v| Ast::not(Ast::var(v))).collect());
    for i in 0..k {
        // lowest set bit is i: b_i & -b_0 .. -b_(i-1); predecessor has b_i = 0 and the bits below = 1
        let mut guard = vec![Ast::var(&b[i])];
        guard.extend((0..i).map(|j| Ast::not(Ast::var(&b[j]))));
        let mut pred = vec![Ast::var("Z"), Ast::not(Ast::var(&b[i]))];
        pred.extend((0..i).map(|j| Ast::var(&b[j])));
        let q = Ast::Q(true, b[..=i].to_vec(), Box::new(conj(pred)));
        body = Ast::bin(Bin::Or, body, Ast::bin(Bin::And, conj(guard), q));
    }
    Ast::fp("Z", false, body)
}

// ---------------------------------------------------------------------------------------
// wide family: formulas over 33..70 variables whose canonical diagram is known in closed form

fn wide_and(vars: &[NamedSymbol]) -> Rc<BDD<NamedSymbol>> {
    let mut r = Rc::new(BDD::True);
    for v in vars.iter().rev() {
        r = Rc::new(BDD::Choice(r, v.clone(), Rc::new(BDD::False)));
    }
    r
}
fn wide_or(vars: &[NamedSymbol]) -> Rc<BDD<NamedSymbol>> {
    let mut r = Rc::new(BDD::False);
    for v in vars.iter().rev() {
        r = Rc::new(BDD::Choice(Rc::new(BDD::True), v.clone(), r));
    }
    r
}
fn wide_xor(vars: &[NamedSymbol]) -> Rc<BDD<NamedSymbol>> {
    // (odd, even): parity of the remaining variables must be odd / even
    let mut odd = Rc::new(BDD::False);
    let mut even = Rc::new(BDD::True);
    for v in vars.iter().rev() {
        let o = Rc::new(BDD::Choice(even.clone(), v.clone(), odd.clone()));
        let e = Rc::new(BDD::Choice(odd.clone(), v.clone(), even.clone()));
        odd = o;
        even = e;
    }
    odd
}

/// chains `v0 op v1 op ..` over N variables under exists / forall of variables at positions
/// around the machine-word boundaries; the expected reduced ordered diagram is built by hand
pub fn wide_family(ctx: &mut Ctx, tag: &str) {
    use crate::refl::Bin;
    let mut idx = 0u64;
    for n in [33usize, 40, 65, 70, 130, 300] {
        let names: Vec<String> = (0..n).map(|i| format!("v{i}")).collect();
        let syms: Vec<NamedSymbol> = names.iter().enumerate().map(|(i, s)| sym(s, i)).collect();
        let positions: Vec<Vec<usize>> = vec![vec![], vec![0], vec![31], vec![32], vec![33.min(n - 1)], vec![n - 1], vec![31, 32], vec![0, 32], vec![n - 1, 0], vec![32, 0, 31]]
            .into_iter()
            .chain(if n > 64 { vec![vec![63], vec![64], vec![0, 64], vec![32, 64], vec![64, 32, 0]] } else { vec![] })
            .chain(if n > 128 { vec![vec![127], vec![128], vec![129], vec![0, 128, 64]] } else { vec![] })
            .chain(if n > 256 { vec![vec![255], vec![256], vec![257], vec![280], vec![256, 0, 299], vec![299, 280, 255]] } else { vec![] })
            .collect();
        // (and / or only: the engine has no operation cache, so negation or quantification of a
        // wide parity diagram is exponential by design)
        for (oi, op) in [Bin::And, Bin::Or].into_iter().enumerate() {
            let chain = names.iter().map(|s| Ast::var(s)).rev().reduce(|acc, v| Ast::bin(op, v, acc)).unwrap_or(Ast::True);
            for q in &positions {
                for ex in [true, false] {
                    if q.is_empty() && !ex {
                        continue;
                    }
                    idx += 1;
                    if !ctx.mine(idx) {
                        continue;
                    }
                    let ast = if q.is_empty() { chain.clone() } else { Ast::Q(ex, q.iter().map(|i| names[*i].clone()).collect(), Box::new(chain.clone())) };
                    let text = refl::pp(&ast, refl::MINIMAL);
                    let case = json!({"part": "wide", "n": n, "op": oi, "exists": ex, "positions": q});
                    ctx.begin_case(|| case.clone());
                    ctx.count("evaluations", 1);
                    ctx.count("wide_family_formulas", 1);
                    let key = format!("{tag} {n} variables: {} {:?} # v0 {:?} v1 {:?} .. v{}", if ex { "exists" } else { "forall" }, q.iter().map(|i| &names[*i]).collect::<Vec<_>>(), op, op, n - 1);
                    ctx.distinct(&key);
                    let rest: Vec<NamedSymbol> = syms.iter().enumerate().filter(|(i, _)| !q.contains(i)).map(|(_, s)| s.clone()).collect();
                    let want = match (op, q.is_empty(), ex) {
                        (Bin::And, true, _) | (Bin::And, false, true) => wide_and(&rest),
                        (Bin::And, false, false) => Rc::new(BDD::False),
                        (Bin::Or, true, _) | (Bin::Or, false, false) => wide_or(&rest),
                        (Bin::Or, false, true) => Rc::new(BDD::True),
                        (_, true, _) => wide_xor(&rest),
                        (_, false, true) => Rc::new(BDD::True),
                        (_, false, false) => Rc::new(BDD::False),
                    };
                    let p = match impl_parse_bytes(text.as_bytes(), Some(syms.clone())) {
                        ImplParse::Ok(p) => p,
                        ImplParse::Err(e) => {
                            ctx.violation(key, format!("well-formed formula rejected: {e}"), case);
                            continue;
                        }
                        ImplParse::Panic(m) => {
                            ctx.violation(key, format!("parser panicked: {m}"), case);
                            continue;
                        }
                    };
                    match impl_eval(&p) {
                        Err(m) => ctx.violation(key, format!("evaluation failed: {m}"), case),
                        Ok(res) => {
                            if *res != *want {
                                let mut ls = vec![];
                                crate::robdd::labels(&res, &mut ls);
                                ctx.violation(key, format!("the answer is not the expected diagram (it tests {} variables, the expected diagram {})", ls.len(), rest.len() * usize::from(!matches!(want.as_ref(), BDD::True | BDD::False))), case);
                            } else {
                                // labels carry the right names
                                let mut ls = vec![];
                                crate::robdd::labels(&res, &mut ls);
                                if ls.iter().any(|l| names.get(l.id).map(|n| n != l.name.as_ref()).unwrap_or(true)) {
                                    ctx.violation(key, "a node of the answer is labelled with the wrong variable name".into(), case);
                                }
                            }
                        }
                    }
                }
            }
        }
    }
}
