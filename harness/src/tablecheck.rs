//! Oracles for the text the real `rsbdd` binary prints: truth table, `-v` lines.

use crate::cli::{parse_table, project_ref, table_sem, Cell};
use crate::refl::{self, Tok};

#[derive(Debug, Clone, Copy, PartialEq, Eq, Hash)]
pub enum Filter {
    Any,
    True,
    False,
}

pub struct Expect {
    /// every name of the formula in order of first appearance
    pub names: Vec<String>,
    /// reference truth table over `names`
    pub want: u64,
    /// reference free variables
    pub free: Vec<String>,
}

/// variable order the documentation prescribes: names listed in the ordering text first, in
/// order of first appearance there, then the remaining names of the formula in order of
/// first appearance in the formula
pub fn var_order(names: &[String], ordering: Option<&str>) -> Vec<String> {
    let mut out: Vec<String> = vec![];
    if let Some(o) = ordering {
        for t in refl::lex(o) {
            if let Tok::Var(v) = t {
                if !out.contains(&v) {
                    out.push(v);
                }
            }
        }
    }
    for n in names {
        if !out.contains(n) {
            out.push(n.clone());
        }
    }
    out
}

/// the header the table must have: free variables in variable order
pub fn expected_header(exp: &Expect, order: &[String]) -> Vec<String> {
    order.iter().filter(|n| exp.free.contains(n)).cloned().collect()
}

pub fn judge_table(out: &str, exp: &Expect, order: &[String], filter: Filter) -> Vec<String> {
    let mut c = vec![];
    let t = match parse_table(out) {
        Err(e) => return vec![format!("unreadable table: {e}")],
        Ok(t) => t,
    };
    let want_header = expected_header(exp, order);
    if t.header != want_header {
        c.push(format!("header {:?}, expected the free variables in variable order {:?}", t.header, want_header));
        if t.header.iter().any(|h| !exp.names.contains(h)) {
            return c;
        }
    }
    let refv = match project_ref(exp.want, &exp.names, &t.header) {
        Err(e) => {
            c.push(e);
            return c;
        }
        Ok(v) => v,
    };
    let ts = table_sem(&t);
    for asg in 0..(1usize << ts.k) {
        let n = ts.true_cover[asg] + ts.false_cover[asg];
        if n > 1 {
            c.push(format!("rows overlap: assignment {asg:#b} of {:?} is covered {n} times", t.header));
            break;
        }
        let shown = n == 1;
        let should = match filter {
            Filter::Any => true,
            Filter::True => refv[asg],
            Filter::False => !refv[asg],
        };
        if shown != should {
            c.push(format!("assignment {asg:#b} of {:?} (formula value {}) is {} with filter {:?}", t.header, refv[asg], if shown { "listed" } else { "missing" }, filter));
            break;
        }
        if shown && (ts.true_cover[asg] == 1) != refv[asg] {
            c.push(format!("result column says {} for assignment {asg:#b} of {:?}, the formula is {}", ts.true_cover[asg] == 1, t.header, refv[asg]));
            break;
        }
    }
    c
}

/// `-v` output: one line `x, y*;` per satisfying path: plain names are true, starred names
/// are free to choose, unlisted free variables are false
pub fn judge_vars(out: &str, exp: &Expect, order: &[String]) -> Vec<String> {
    let header = expected_header(exp, order);
    let refv = match project_ref(exp.want, &exp.names, &header) {
        Err(e) => return vec![e],
        Ok(v) => v,
    };
    let mut cover = vec![0u32; 1 << header.len()];
    for l in out.lines().filter(|l| l.trim_end().ends_with(';') && !l.starts_with('|')) {
        let body = l.trim_end().trim_end_matches(';');
        let mut cells = vec![Cell::F; header.len()];
        for item in body.split(',').map(str::trim).filter(|s| !s.is_empty()) {
            let (name, any) = match item.strip_suffix('*') {
                Some(n) => (n, true),
                None => (item, false),
            };
            match header.iter().position(|h| h == name) {
                None => return vec![format!("-v mentions '{name}', which is not a free variable ({:?})", header)],
                Some(i) => cells[i] = if any { Cell::Any } else { Cell::T },
            }
        }
        for a in crate::cli::row_assignments(&cells) {
            cover[a] += 1;
        }
    }
    let mut c = vec![];
    for asg in 0..cover.len() {
        if cover[asg] > 1 {
            c.push(format!("-v lines overlap on assignment {asg:#b} of {:?}", header));
            break;
        }
        if (cover[asg] == 1) != refv[asg] {
            c.push(format!("-v {} assignment {asg:#b} of {:?} although the formula is {} there", if cover[asg] == 1 { "lists" } else { "omits" }, header, refv[asg]));
            break;
        }
    }
    c
}
