//! The formula set used by the checks that drive the real `rsbdd` binary.

use crate::enumerate::{Alpha, Gen};
use crate::refl::{Ast, Bin, Sem, ALL_CMPS};

pub fn cli_alpha() -> Alpha {
    let s = |x: &str| x.to_string();
    Alpha {
        leaves: vec![Ast::var("a"), Ast::var("b"), Ast::var("c"), Ast::True],
        not: true,
        bins: vec![Bin::And, Bin::Or, Bin::Implies, Bin::Xor],
        ite: true,
        quants: vec![(true, vec![s("a")]), (false, vec![s("a")]), (true, vec![s("a"), s("b")]), (false, vec![s("a"), s("b")])],
        fps: vec![(s("X"), false), (s("X"), true)],
        cmps: ALL_CMPS.to_vec(),
        nums: vec![s("1")],
        cv: false,
        max_list: 2,
    }
}

/// every AST with <= n nodes over the CLI alphabet whose fixed points converge, with its
/// reference truth table over `names()`; counting nodes always have exactly two operands
pub fn cli_formula_set(n: usize) -> Vec<(Ast, Vec<String>, u64)> {
    let mut g = Gen::new(cli_alpha());
    let mut out = vec![];
    for size in 1..=n {
        g.stream(size, &mut |a| {
            let names = a.names();
            if names.len() > 6 {
                return;
            }
            if let Some(t) = Sem::new(&names).eval_closed(&a) {
                out.push((a, names, t));
            }
        });
    }
    out
}
