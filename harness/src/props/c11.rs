//! C11 — variable ordering changes the shape of the answer, never its meaning.

use crate::cli::{Channel, Inv};
use crate::conv::*;
use crate::dot;
use crate::enumerate::permutations;
use crate::formulas::cli_formula_set;
use crate::refl::{self, Ast};
use crate::robdd;
use crate::runner::{guarded, Ctx, Engine};
use crate::tablecheck::*;
use serde_json::{json, Value};

pub static ENGINE: Engine = Engine {
    prop: "C11",
    level: "exploration",
    rule: "every formula with <= 3 (4) AST nodes over the CLI alphabet that mentions 2..4 distinct names x EVERY ordering text of a family: all permutations, all ordered strict subsets, supersets with one unused name at every position and two unused names around, duplicated names, and decorated texts (commas, comments, keywords, symbols, numbers between the names). Real binary: `-o <file> -t` = reference table with the header in the prescribed order; `-r` lists the formula's names in that order; every edge of the `-d` export goes from an earlier to a later variable; feeding the `-r` output back through `-o` reproduces the `-t` output byte for byte. API: ParsedFormula::new(text, Some(ordering)) with distinct non-contiguous ids for every permutation (+ an unused symbol) and for every ordered strict subset as a partial ordering: truth table by name = reference, free_vars / vars sorted by id in the prescribed order, to_free_index consistent, diagram ordered by id. Large ordering files: the used names scattered through 70 / 130 / 300 names, and behind / in front of 12 000 unused names (80 KiB). distinct = distinct (formula, ordering, output kind)",
    assumptions: &["prescribed order = names of the ordering text in order of first appearance, then the formula's remaining names in order of first appearance", "reference semantics of harness/src/refl.rs"],
    max_shards: 64,
    run,
    replay,
};

const TAG: &str = "C11";

fn expect_of(a: &Ast) -> Option<Expect> {
    let names = a.names();
    if names.len() > 6 {
        return None;
    }
    let want = refl::Sem::new(&names).eval_closed(a)?;
    Some(Expect { free: a.free_names(), names, want })
}

/// (ordering text, is_core): core orderings get the full set of observations
pub fn ordering_family(names: &[String], thorough: bool) -> Vec<(String, bool)> {
    let n = names.len();
    let mut out: Vec<(String, bool)> = vec![];
    for p in permutations(n) {
        let l: Vec<String> = p.iter().map(|i| names[*i].clone()).collect();
        out.push((l.join(" "), true));
    }
    // ordered strict subsets
    for mask in 0..((1usize << n) - 1) {
        let sub: Vec<&String> = (0..n).filter(|i| mask & (1 << i) != 0).map(|i| &names[i]).collect();
        for p in permutations(sub.len()) {
            let l: Vec<String> = p.iter().map(|i| sub[*i].clone()).collect();
            out.push((l.join("\n"), sub.len() + 1 == n));
        }
    }
    // supersets: one unused name at every position, for the reversed list (and all
    // permutations in thorough)
    let bases: Vec<Vec<String>> = if thorough { permutations(n).into_iter().map(|p| p.iter().map(|i| names[*i].clone()).collect()).collect() } else { vec![names.iter().rev().cloned().collect()] };
    for b in &bases {
        for pos in 0..=b.len() {
            let mut l = b.clone();
            l.insert(pos, "zz".to_string());
            out.push((l.join(" "), true));
        }
        let mut l = b.clone();
        l.insert(0, "y0".to_string());
        l.push("y1".to_string());
        l.insert(l.len() / 2, "y2".to_string());
        out.push((l.join(" "), false));
    }
    // duplicates and decoration
    let rev: Vec<String> = names.iter().rev().cloned().collect();
    let mut dup = rev.clone();
    dup.extend(rev.iter().rev().cloned());
    out.push((dup.join(" "), false));
    out.push((format!("\"order\" {} ,, true & ( 12", rev.join(" , ")), false));
    // a quoted comment that mentions the variables in ANOTHER order than the list below it
    out.push((format!("\"first {} then the others\"\n{}\n", names.join(" and "), rev.join(" ")), false));
    out.push((format!("{} \"not {}\"", rev.join("\n"), names.join(" ")), false));
    // lines that begin with a table bar or another stray character
    out.push((rev.join("\n| "), false));
    out.push((format!("| {} |", rev.join(" | ")), false));
    out.push((format!("exists {} # not {}", rev.join(" => "), rev[0]), false));
    let mut seen = vec![];
    out.retain(|(o, _)| {
        if seen.contains(o) {
            false
        } else {
            seen.push(o.clone());
            true
        }
    });
    out
}

fn case(text: &str, ord: &str) -> Value {
    json!({"part": "cli", "text": text, "ordering": ord})
}

fn inv(text: &str, ord: &str, opts: &[&str]) -> Inv {
    // the input channel rotates with the case (the ordering must apply to all three)
    let channel = [Channel::Evaluate, Channel::File, Channel::Stdin][(crate::runner::fxhash(&(text, ord)) % 3) as usize];
    Inv { formula: text.as_bytes().to_vec(), channel, ordering: Some(ord.as_bytes().to_vec()), opts: opts.iter().map(|s| s.to_string()).collect(), dot: false, parsetree: false }
}

fn check_cli(ctx: &mut Ctx, a: &Ast, text: &str, ord: &str, full: bool) {
    let Some(exp) = expect_of(a) else { return };
    let order = var_order(&exp.names, Some(ord));
    let key = format!("{TAG} rsbdd {:?} -o {:?}", text, ord);
    ctx.begin_case(|| case(text, ord));
    // 1. table
    ctx.count("evaluations", 1);
    let r1 = inv(text, ord, &["-t"]).run();
    if !r1.run.ok() {
        ctx.violation(key, format!("rsbdd -t failed: {} {}", r1.run.describe(), r1.run.err_tail()), case(text, ord));
        return;
    }
    ctx.distinct(&(text, ord, 0u8));
    let c = judge_table(&r1.run.out(), &exp, &order, Filter::Any);
    if !c.is_empty() {
        ctx.violation(key, c.join("; "), case(text, ord));
        return;
    }
    if !full {
        return;
    }
    // 2. -r lists the formula's names in the prescribed order
    ctx.count("evaluations", 1);
    let r2 = inv(text, ord, &["-r"]).run();
    if !r2.run.ok() {
        ctx.violation(key, format!("rsbdd -r failed: {} {}", r2.run.describe(), r2.run.err_tail()), case(text, ord));
        return;
    }
    ctx.distinct(&(text, ord, 1u8));
    let listed: Vec<String> = r2.run.out().lines().map(|l| l.trim().to_string()).filter(|l| !l.is_empty()).collect();
    let want: Vec<String> = order.iter().filter(|n| exp.names.contains(n)).cloned().collect();
    if listed != want {
        ctx.violation(key, format!("-r printed {:?}, the variables of the formula in variable order are {:?}", listed, want), case(text, ord));
        return;
    }
    // 3. feeding the exported order back reproduces the table byte for byte
    ctx.count("evaluations", 1);
    let r3 = inv(text, &r2.run.out(), &["-t"]).run();
    if r3.run.stdout != r1.run.stdout {
        ctx.violation(key, format!("`-t` under the re-imported `-r` order differs from `-t` under the original ordering:\n{}\nvs\n{}", r3.run.out(), r1.run.out()), case(text, ord));
        return;
    }
    // 4. the exported diagram respects the order on every edge
    ctx.count("evaluations", 1);
    let mut i4 = inv(text, ord, &[]);
    i4.dot = true;
    let r4 = i4.run();
    ctx.distinct(&(text, ord, 2u8));
    match r4.dot.as_ref().map(|d| dot::parse(&String::from_utf8_lossy(d))) {
        None => ctx.violation(key, "no -d file was written".into(), case(text, ord)),
        Some(Err(e)) => ctx.violation(key, format!("unreadable -d file: {e}"), case(text, ord)),
        Some(Ok(g)) => {
            let label = |id: &str| g.nodes.iter().find(|(i, _)| i == id).map(|(_, l)| l.clone());
            for (u, w, _) in &g.edges {
                let (Some(lu), Some(lw)) = (label(u), label(w)) else { continue };
                if lw == "true" || lw == "false" {
                    continue;
                }
                let (pu, pw) = (order.iter().position(|n| *n == lu), order.iter().position(|n| *n == lw));
                if pu.is_none() || pw.is_none() || pu >= pw {
                    ctx.violation(key, format!("the exported diagram tests {lw} below {lu}, against the variable order {:?}", order), case(text, ord));
                    return;
                }
            }
        }
    }
    ctx.sample(|| json!({"formula": text, "ordering": ord, "table": r1.run.out()}));
}

/// API ordering that lists only some of the formula's names (ids with gaps, not starting at
/// zero): the listed names come first in id order, the others follow in order of appearance
fn check_api_subset(ctx: &mut Ctx, a: &Ast, text: &str, subset: &[usize]) {
    let Some(exp) = expect_of(a) else { return };
    let c = json!({"part": "api-subset", "text": text, "subset": subset});
    ctx.begin_case(|| c.clone());
    ctx.count("evaluations", 1);
    let ids = [2usize, 5, 34, 98];
    let ordering: Vec<rsbdd::NamedSymbol> = subset.iter().enumerate().map(|(j, p)| sym(&exp.names[*p], ids[j])).collect();
    let mut order: Vec<String> = subset.iter().map(|p| exp.names[*p].clone()).collect();
    for n in &exp.names {
        if !order.contains(n) {
            order.push(n.clone());
        }
    }
    let key = format!("{TAG} api {:?} with partial ordering {:?}", text, ordering.iter().map(|s| format!("{}#{}", s.name, s.id)).collect::<Vec<_>>());
    ctx.distinct(&key);
    let p = match impl_parse_bytes(text.as_bytes(), Some(ordering)) {
        ImplParse::Ok(p) => p,
        ImplParse::Err(e) => {
            ctx.violation(key, format!("rejected: {e}"), c);
            return;
        }
        ImplParse::Panic(m) => {
            ctx.violation(key, format!("parser panicked: {m}"), c);
            return;
        }
    };
    let mut cs = vec![];
    let want_free: Vec<String> = order.iter().filter(|n| exp.free.contains(n)).cloned().collect();
    if names_of(&p.vars) != order {
        cs.push(format!("vars = {:?}, expected {:?}", names_of(&p.vars), order));
    }
    if names_of(&p.free_vars) != want_free {
        cs.push(format!("free_vars = {:?}, expected {:?}", names_of(&p.free_vars), want_free));
    }
    let mut ids_seen: Vec<usize> = p.vars.iter().map(|v| v.id).collect();
    ids_seen.sort_unstable();
    ids_seen.dedup();
    if ids_seen.len() != p.vars.len() {
        cs.push("two different names received the same variable id".to_string());
    }
    match impl_eval(&p) {
        Err(m) => cs.push(format!("evaluation failed: {m}")),
        Ok(res) => match tt_named(&res, &exp.names) {
            Err(e) => cs.push(e),
            Ok(t) if t != exp.want => cs.push(format!("under this ordering the answer denotes {t:#x} over {:?}, under the default order {:#x}", exp.names, exp.want)),
            _ => {}
        },
    }
    if !cs.is_empty() {
        cs.truncate(4);
        ctx.violation(key, cs.join("; "), c);
    }
}

fn check_api(ctx: &mut Ctx, a: &Ast, text: &str, perm: &[usize], with_unused: bool) {
    check_api_v(ctx, a, text, perm, with_unused, false);
    // the same symbols handed over as a vector listed in DESCENDING id order: the ids decide
    check_api_v(ctx, a, text, perm, with_unused, true);
}

fn check_api_v(ctx: &mut Ctx, a: &Ast, text: &str, perm: &[usize], with_unused: bool, descending: bool) {
    let Some(exp) = expect_of(a) else { return };
    let c = json!({"part": "api", "text": text, "perm": perm, "unused": with_unused, "vector_descending": descending});
    ctx.begin_case(|| c.clone());
    ctx.count("evaluations", 1);
    // distinct, non-contiguous ids in the order of the permutation
    // gaps, and ids congruent modulo 32 / 64
    let ids = [3usize, 7, 35, 99, 163, 227, 291];
    let mut ordering = vec![];
    let mut order: Vec<String> = vec![];
    let mut slot = 0;
    for (j, p) in perm.iter().enumerate() {
        if with_unused && j == perm.len() / 2 {
            // an unused symbol; for odd permutations it is spelled like a keyword of the language
            // (a name the formula text can never refer to as a variable)
            let name = if perm.first().copied().unwrap_or(0) % 2 == 1 { ["true", "in", "exists", "eq"][perm.len() % 4] } else { "unused" };
            ordering.push(sym(name, ids[slot]));
            slot += 1;
        }
        ordering.push(sym(&exp.names[*p], ids[slot]));
        order.push(exp.names[*p].clone());
        slot += 1;
    }
    if descending {
        ordering.reverse();
    }
    let given: Vec<(String, usize)> = ordering.iter().map(|s| (s.name.as_ref().clone(), s.id)).collect();
    let key = format!("{TAG} api {:?} with ordering {:?}", text, ordering.iter().map(|s| format!("{}#{}", s.name, s.id)).collect::<Vec<_>>());
    ctx.distinct(&key);
    let p = match impl_parse_bytes(text.as_bytes(), Some(ordering)) {
        ImplParse::Ok(p) => p,
        ImplParse::Err(e) => {
            ctx.violation(key, format!("rejected: {e}"), c);
            return;
        }
        ImplParse::Panic(m) => {
            ctx.violation(key, format!("parser panicked: {m}"), c);
            return;
        }
    };
    let mut cs = vec![];
    let want_free: Vec<String> = order.iter().filter(|n| exp.free.contains(n)).cloned().collect();
    if names_of(&p.vars) != order {
        cs.push(format!("vars = {:?}, expected {:?}", names_of(&p.vars), order));
    }
    if names_of(&p.free_vars) != want_free {
        cs.push(format!("free_vars = {:?}, expected {:?}", names_of(&p.free_vars), want_free));
    }
    // the symbols of the parsed formula are the caller's symbols
    for v in p.vars.iter().chain(p.free_vars.iter()) {
        if let Some((_, id)) = given.iter().find(|(n, _)| n == v.name.as_ref()) {
            if *id != v.id {
                cs.push(format!("variable {} was given id {} in the ordering but carries id {} in the parsed formula", v.name, id, v.id));
                break;
            }
        }
    }
    for v in &p.free_vars {
        let want = want_free.iter().position(|n| n == v.name.as_ref());
        let got = guarded(|| p.to_free_index(v)).ok();
        if got != want {
            cs.push(format!("to_free_index({}) = {:?}, expected {:?}", v.name, got, want));
        }
    }
    match impl_eval(&p) {
        Err(m) => cs.push(format!("evaluation failed: {m}")),
        Ok(res) => {
            match tt_named(&res, &exp.names) {
                Err(e) => cs.push(e),
                Ok(t) if t != exp.want => cs.push(format!("under this ordering the answer denotes {t:#x} over {:?}, under the default order {:#x}", exp.names, exp.want)),
                _ => {}
            }
            if let Err(e) = robdd::is_ordered_reduced(&res) {
                cs.push(e);
            }
            // ordered by id means ordered as in the permutation
            let mut ls = vec![];
            robdd::labels(&res, &mut ls);
            fn path_ok(b: &rsbdd::bdd::BDD<rsbdd::NamedSymbol>, order: &[String], above: Option<usize>) -> bool {
                match b {
                    rsbdd::bdd::BDD::Choice(t, v, f) => {
                        let Some(p) = order.iter().position(|n| n == v.name.as_ref()) else { return false };
                        if above.map(|a| a >= p).unwrap_or(false) {
                            return false;
                        }
                        path_ok(t, order, Some(p)) && path_ok(f, order, Some(p))
                    }
                    _ => true,
                }
            }
            if !path_ok(&res, &order, None) {
                cs.push(format!("the answer does not test variables in the given order {:?}: {}", order, robdd::show(&res)));
            }
        }
    }
    if !cs.is_empty() {
        cs.truncate(4);
        ctx.violation(key, cs.join("; "), c);
    }
}

fn run(ctx: &mut Ctx) {
    let th = ctx.thorough();
    let set = cli_formula_set(if th { 4 } else { 3 });
    let mut idx = 0u64;
    for (a, names, _) in set.iter() {
        if names.len() < 2 || names.len() > 4 {
            continue;
        }
        let text = refl::pp(a, refl::MINIMAL);
        // CLI: quick tier drives formulas <= 3 nodes with the complete ordering family; the
        // full observation set (-r, re-import, -d) on core orderings
        let cli_here = th && a.size() <= 3 || !th;
        if cli_here {
            for (o, core) in ordering_family(names, th) {
                idx += 1;
                if ctx.mine(idx) {
                    check_cli(ctx, a, &text, &o, core);
                    ctx.count("cli_cases", 1);
                }
            }
        } else {
            // 4-node formulas (thorough): permutations and one-name supersets
            for (o, core) in ordering_family(names, false) {
                if !core {
                    continue;
                }
                idx += 1;
                if ctx.mine(idx) {
                    check_cli(ctx, a, &text, &o, false);
                    ctx.count("cli_cases", 1);
                }
            }
        }
        for p in permutations(names.len()) {
            for unused in [false, true] {
                idx += 1;
                if ctx.mine(idx) {
                    check_api(ctx, a, &text, &p, unused);
                    ctx.count("api_cases", 1);
                }
            }
        }
        // every ordered strict subset as a partial API ordering
        let n = names.len();
        for mask in 1..((1usize << n) - 1) {
            let sub: Vec<usize> = (0..n).filter(|i| mask & (1 << i) != 0).collect();
            for p in permutations(sub.len()) {
                let l: Vec<usize> = p.iter().map(|i| sub[*i]).collect();
                idx += 1;
                if ctx.mine(idx) {
                    check_api_subset(ctx, a, &text, &l);
                    ctx.count("api_cases", 1);
                }
            }
        }
    }
    // names that need care in an ordering file: primes, underscores, digits, non-ASCII letters
    {
        let rename = |a: &Ast, set: usize| -> Ast {
            SET.with(|c| c.set(set));
            thread_local! {
                static SET: std::cell::Cell<usize> = const { std::cell::Cell::new(0) };
            }
            fn go(a: &Ast) -> Ast {
                let set = SET.with(|c| c.get());
                let r = |n: &String| match (set, n.as_str()) {
                    (0, "a") => "x'".to_string(),
                    (0, "b") => "b_1".to_string(),
                    (0, "c") => "\u{e9}2".to_string(),
                    // a combining mark, a connector and a joiner inside names
                    (1, "a") => "e\u{301}".to_string(),
                    (1, "b") => "e".to_string(),
                    (1, "c") => "k\u{203f}1\u{200d}".to_string(),
                    (_, o) => o.to_string(),
                };
                match a {
                    Ast::Var(v) => Ast::Var(r(v)),
                    Ast::Not(x) => Ast::Not(Box::new(go(x))),
                    Ast::Q(e, vs, b) => Ast::Q(*e, vs.iter().map(r).collect(), Box::new(go(b))),
                    Ast::Fp(x, g, b) => Ast::Fp(x.clone(), *g, Box::new(go(b))),
                    Ast::CC(o, l, n) => Ast::CC(*o, l.iter().map(go).collect(), n.clone()),
                    Ast::CV(o, l, rr) => Ast::CV(*o, l.iter().map(go).collect(), rr.iter().map(go).collect()),
                    Ast::Ite(c, t, e) => Ast::Ite(Box::new(go(c)), Box::new(go(t)), Box::new(go(e))),
                    Ast::Bin(o, l, rr) => Ast::Bin(*o, Box::new(go(l)), Box::new(go(rr))),
                    o => o.clone(),
                }
            }
            go(a)
        };
        for (k, (a, names, _)) in set.iter().filter(|(a, n, _)| a.size() <= 3 && n.len() >= 2 && n.len() <= 3).step_by(7).enumerate() {
            let ra = rename(a, k % 2);
            let text = refl::pp(&ra, refl::MINIMAL);
            for (o, core) in ordering_family(&ra.names(), false) {
                if !core {
                    continue;
                }
                idx += 1;
                if ctx.mine(idx) {
                    check_cli(ctx, &ra, &text, &o, true);
                    ctx.count("cli_cases", 1);
                }
            }
            let _ = names;
        }
    }
    // formulas with five and six variables under four orderings, full observation set
    for f in crate::props::c10::BIG {
        let Ok(a) = refl::parse(f) else { continue };
        for o in crate::props::c10::big_orderings(&a.names()) {
            idx += 1;
            if ctx.mine(idx) {
                check_cli(ctx, &a, f, &o, true);
                ctx.count("cli_cases", 1);
            }
        }
    }
    // large ordering files: the used names scattered through 70 / 130 / 300 names (so that they
    // get positions beyond 64), and behind / in front of 12 000 unused names (an 80 KiB file)
    for f in ["(a & -b) | c", "exists b # (a ^ b) & c", "[a, b, c] = 2", "a"] {
        let Ok(a) = refl::parse(f) else { continue };
        let used: Vec<String> = a.names().into_iter().rev().collect();
        let mut ords: Vec<String> = vec![];
        for total in [70usize, 130, 300] {
            let mut l: Vec<String> = (0..total).map(|i| format!("unused_{i}")).collect();
            for (k, u) in used.iter().enumerate() {
                let pos = [2usize, total - 3, total - 1][k % 3].min(l.len());
                l.insert(pos, u.clone());
            }
            ords.push(l.join("\n"));
        }
        let many: String = (0..12000).map(|i| format!("u{i:05}")).collect::<Vec<_>>().join(" ");
        ords.push(format!("{many}\n{}", used.join(" ")));
        ords.push(format!("{}\n{many}", used.join(" ")));
        // lines that begin with a table bar, a comment mark or a bullet
        ords.push(used.join("\n| "));
        ords.push(used.join("\n# "));
        ords.push(format!("- {}", used.join("\n- ")));
        // a quoted comment that spans lines and names the variables in another order
        let other: Vec<String> = used.iter().rev().cloned().collect();
        ords.push(format!("\"previous order:\n{}\"\n{}\n", other.join(" "), used.join(" ")));
        ords.push(format!("{}\n\"was:\n{}\nbefore\"", used.join("\n"), other.join("\n")));
        for o in ords {
            idx += 1;
            if ctx.mine(idx) {
                check_cli(ctx, &a, f, &o, true);
                ctx.count("cli_cases", 1);
                ctx.count("large_ordering_files", 1);
            }
        }
    }
    crate::cli::cleanup_scratch();
}

fn replay(ctx: &mut Ctx, c: &Value) {
    let text = c["text"].as_str().unwrap_or("");
    let Ok(a) = refl::parse(text) else { return };
    if c["part"].as_str() == Some("api-subset") {
        let sub: Vec<usize> = c["subset"].as_array().map(|x| x.iter().map(|v| v.as_u64().unwrap_or(0) as usize).collect()).unwrap_or_default();
        check_api_subset(ctx, &a, text, &sub);
        return;
    }
    if c["part"].as_str() == Some("api") {
        let perm: Vec<usize> = c["perm"].as_array().map(|x| x.iter().map(|v| v.as_u64().unwrap_or(0) as usize).collect()).unwrap_or_default();
        check_api_v(ctx, &a, text, &perm, c["unused"].as_bool().unwrap_or(false), c["vector_descending"].as_bool().unwrap_or(false));
    } else {
        check_cli(ctx, &a, text, c["ordering"].as_str().unwrap_or(""), true);
        crate::cli::cleanup_scratch();
    }
}
