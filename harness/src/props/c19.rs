//! C19 — BDDSet behaves as a mathematical set of b-bit integers under every history.
//! History exploration: states = pairs of reference sets (bit masks), transitions = every
//! public operation incl. self-aliased operands, executed on real `BDDSet`s.

use crate::runner::{guarded, Ctx, Engine};
use rsbdd::bdd::BDDEnv;
use rsbdd::set::BDDSet;
use serde_json::{json, Value};
use std::rc::Rc;

pub static ENGINE: Engine = Engine {
    prop: "C19",
    level: "model_checking",
    rule: "explicit-state BFS over ALL pairs (A,B) of subsets of the b-bit universe (b=2: 256 states, b=3: 65536); every state is rebuilt on real BDDSets in a fresh environment by replaying its BFS path from the empty pair; from every state every operation insert(X,e), union/intersect/complement(X,Y) with (X,Y) in {(A,B),(B,A),(A,A),(B,B)}, empty, universe and the query contains(X,e) is executed on the real sets and then membership of EVERY element of BOTH sets is asked forwards and backwards and compared with the reference masks; plus every operation sequence up to depth 4 (5) for b=2 and 3 (4) for b=3 on one long-lived pair without cloning; long insert/query patterns in which one 4-bit set sees all 16 elements; three sets in one environment (every sequence <= 5 of eleven operations from a fixed start), operands that are one-turn temporaries; a long-running 16-bit environment (160 inserts, 14 000 queries, then operations on a set that is empty / the universe); for b = 4 a representative of each of the 222 classes of subsets (under bit permutation / negation / complement) against ALL 65 536 subsets under union / intersect / difference in both operand positions; wider universes (b = 4..13, 15..17, 23..25, 31..33, 48, 63, 64): every sequence of <= 2 (3) operations with membership observed on a pool of six elements (0, 1, 2^(b-1), 2^b-1, ...) against a reference that tracks the pool and 'everything else'. distinct = distinct (state, operation) pairs executed + distinct long-lived sequences",
    assumptions: &["reference = bit masks with the usual set operations; complement(X,Y) is set difference X \\ Y as the property states", "bounds: universe of 2^b elements with b <= 3, two sets, sequences on a long-lived pair up to depth 4"],
    max_shards: 64,
    run,
    replay,
};

#[derive(Debug, Clone, Copy, PartialEq, Eq, Hash)]
pub enum Op {
    Insert(u8, u8),
    Union(u8, u8),
    Intersect(u8, u8),
    Complement(u8, u8),
    Empty(u8),
    Universe(u8),
    Contains(u8, u8),
}

fn nm(x: u8) -> &'static str {
    if x == 0 {
        "A"
    } else {
        "B"
    }
}

impl Op {
    pub fn show(&self) -> String {
        match self {
            Op::Insert(x, e) => format!("insert {} {}", nm(*x), e),
            Op::Union(x, y) => format!("union {} {}", nm(*x), nm(*y)),
            Op::Intersect(x, y) => format!("intersect {} {}", nm(*x), nm(*y)),
            Op::Complement(x, y) => format!("complement {} {}", nm(*x), nm(*y)),
            Op::Empty(x) => format!("empty {}", nm(*x)),
            Op::Universe(x) => format!("universe {}", nm(*x)),
            Op::Contains(x, e) => format!("contains {} {}", nm(*x), e),
        }
    }
    pub fn parse(s: &str) -> Option<Op> {
        let w: Vec<&str> = s.split_whitespace().collect();
        let set = |t: &str| match t {
            "A" => Some(0u8),
            "B" => Some(1u8),
            _ => None,
        };
        Some(match (w.first().copied()?, w.len()) {
            ("insert", 3) => Op::Insert(set(w[1])?, w[2].parse().ok()?),
            ("contains", 3) => Op::Contains(set(w[1])?, w[2].parse().ok()?),
            ("union", 3) => Op::Union(set(w[1])?, set(w[2])?),
            ("intersect", 3) => Op::Intersect(set(w[1])?, set(w[2])?),
            ("complement", 3) => Op::Complement(set(w[1])?, set(w[2])?),
            ("empty", 2) => Op::Empty(set(w[1])?),
            ("universe", 2) => Op::Universe(set(w[1])?),
            _ => return None,
        })
    }
}

pub fn all_ops(bits: usize) -> Vec<Op> {
    let e = 1u8 << bits;
    let mut v = vec![];
    for x in 0..2u8 {
        for k in 0..e {
            v.push(Op::Insert(x, k));
        }
    }
    for (x, y) in [(0u8, 1u8), (1, 0), (0, 0), (1, 1)] {
        v.push(Op::Union(x, y));
        v.push(Op::Intersect(x, y));
        v.push(Op::Complement(x, y));
    }
    for x in 0..2u8 {
        v.push(Op::Empty(x));
        v.push(Op::Universe(x));
    }
    for x in 0..2u8 {
        for k in 0..e {
            v.push(Op::Contains(x, k));
        }
    }
    v
}

type RefState = [u16; 2];

/// reference semantics; returns the expected answer for queries
fn apply_ref(s: &mut RefState, op: Op, bits: usize) -> Option<bool> {
    let full: u16 = ((1u32 << (1 << bits)) - 1) as u16;
    match op {
        Op::Insert(x, e) => s[x as usize] |= 1 << e,
        Op::Union(x, y) => s[x as usize] |= s[y as usize],
        Op::Intersect(x, y) => s[x as usize] &= s[y as usize],
        Op::Complement(x, y) => s[x as usize] &= !s[y as usize] & full,
        Op::Empty(x) => s[x as usize] = 0,
        Op::Universe(x) => s[x as usize] = full,
        Op::Contains(x, e) => return Some((s[x as usize] >> e) & 1 == 1),
    }
    None
}

fn apply_real(sets: &[BDDSet; 2], op: Op) -> Result<Option<bool>, String> {
    guarded(|| {
        match op {
            Op::Insert(x, e) => {
                sets[x as usize].insert(e as usize);
            }
            Op::Union(x, y) => {
                sets[x as usize].union(&sets[y as usize]);
            }
            Op::Intersect(x, y) => {
                sets[x as usize].intersect(&sets[y as usize]);
            }
            Op::Complement(x, y) => {
                sets[x as usize].complement(&sets[y as usize]);
            }
            Op::Empty(x) => {
                sets[x as usize].empty();
            }
            Op::Universe(x) => {
                sets[x as usize].universe();
            }
            Op::Contains(x, e) => return Some(sets[x as usize].contains(e as usize)),
        }
        None
    })
}

/// ask membership of every element of both sets forwards then backwards; Err = complaint
fn check_queries(sets: &[BDDSet; 2], st: &RefState, bits: usize) -> Result<(), String> {
    let n = 1usize << bits;
    let before = [sets[0].bdd.borrow().clone(), sets[1].bdd.borrow().clone()];
    let order: Vec<usize> = (0..n).chain((0..n).rev()).collect();
    for x in 0..2 {
        for &e in &order {
            let want = (st[x] >> e) & 1 == 1;
            match guarded(|| sets[x].contains(e)) {
                Err(p) => return Err(format!("contains({}, {e}) panicked: {p}", nm(x as u8))),
                Ok(got) if got != want => {
                    return Err(format!("contains({}, {e}) answered {got}, the reference set {{{}}} says {want}", nm(x as u8), show_mask(st[x])));
                }
                Ok(_) => {}
            }
        }
    }
    for x in 0..2 {
        if *sets[x].bdd.borrow() != before[x] {
            return Err(format!("membership queries modified set {}", nm(x as u8)));
        }
    }
    Ok(())
}

fn show_mask(m: u16) -> String {
    (0..16).filter(|e| (m >> e) & 1 == 1).map(|e| e.to_string()).collect::<Vec<_>>().join(",")
}

fn fresh(bits: usize) -> [BDDSet; 2] {
    let env = Rc::new(BDDEnv::new());
    [BDDSet::with_env(bits, &env), BDDSet::with_env(bits, &env)]
}

fn case_json(bits: usize, ops: &[Op]) -> Value {
    json!({"part": "history", "bits": bits, "ops": ops.iter().map(Op::show).collect::<Vec<_>>()})
}
fn case_key(bits: usize, ops: &[Op]) -> String {
    format!("b={bits}: {}", ops.iter().map(Op::show).collect::<Vec<_>>().join("; "))
}

/// run a whole history on one long-lived pair, checking the op results and all queries
/// after every step
fn run_history(ctx: &mut Ctx, bits: usize, ops: &[Op], check_every_step: bool) {
    ctx.begin_case(|| case_json(bits, ops));
    let sets = fresh(bits);
    let mut st: RefState = [0, 0];
    for (i, op) in ops.iter().enumerate() {
        let want = apply_ref(&mut st, *op, bits);
        ctx.count("transitions", 1);
        match apply_real(&sets, *op) {
            Err(p) => {
                ctx.violation(case_key(bits, &ops[..=i]), format!("{} panicked: {p}", op.show()), case_json(bits, &ops[..=i]));
                return;
            }
            Ok(got) => {
                if got != want {
                    ctx.violation(case_key(bits, &ops[..=i]), format!("{} answered {:?}, reference says {:?}", op.show(), got, want), case_json(bits, &ops[..=i]));
                    return;
                }
            }
        }
        if check_every_step || i + 1 == ops.len() {
            if let Err(m) = check_queries(&sets, &st, bits) {
                ctx.violation(case_key(bits, &ops[..=i]), format!("after this history: {m}"), case_json(bits, &ops[..=i]));
                return;
            }
        }
    }
}

fn bfs(ctx: &mut Ctx, bits: usize) {
    let ops = all_ops(bits);
    let nstates = 1usize << (2 << bits);
    // reference-only BFS for shortest paths (parent pointers)
    let mut parent: Vec<Option<(u32, Op)>> = vec![None; nstates];
    let mut seen = vec![false; nstates];
    let enc = |s: &RefState| (s[0] as usize) | ((s[1] as usize) << (1 << bits));
    let mut order: Vec<RefState> = vec![[0, 0]];
    seen[0] = true;
    let mut head = 0;
    while head < order.len() {
        let s = order[head];
        head += 1;
        for op in &ops {
            let mut t = s;
            apply_ref(&mut t, *op, bits);
            let k = enc(&t);
            if !seen[k] {
                seen[k] = true;
                parent[k] = Some((enc(&s) as u32, *op));
                order.push(t);
            }
        }
    }
    ctx.global(&format!("states_b{bits}"), order.len() as u64);
    if order.len() != nstates {
        panic!("machinery: reference BFS reached {} of {} states", order.len(), nstates);
    }
    for (si, s) in order.iter().enumerate() {
        if !ctx.mine(si as u64) {
            continue;
        }
        // path from the initial state
        let mut path = vec![];
        let mut k = enc(s);
        while let Some((p, op)) = parent[k] {
            path.push(op);
            k = p as usize;
        }
        path.reverse();
        ctx.count("states_expanded", 1);
        // rebuild the state on real sets by replaying the path
        let base = fresh(bits);
        let mut st: RefState = [0, 0];
        let mut broken = false;
        for (i, op) in path.iter().enumerate() {
            apply_ref(&mut st, *op, bits);
            if let Err(p) = apply_real(&base, *op) {
                let h = path[..=i].to_vec();
                ctx.violation(case_key(bits, &h), format!("{} panicked: {p}", op.show()), case_json(bits, &h));
                broken = true;
                break;
            }
        }
        if broken {
            continue;
        }
        debug_assert_eq!(st, *s);
        for op in &ops {
            let sets = [base[0].clone(), base[1].clone()];
            let mut t = *s;
            let want = apply_ref(&mut t, *op, bits);
            ctx.count("transitions", 1);
            ctx.distinct(&(bits, si, *op));
            let mut h = path.clone();
            h.push(*op);
            ctx.begin_case(|| case_json(bits, &h));
            match apply_real(&sets, *op) {
                Err(p) => ctx.violation(case_key(bits, &h), format!("{} panicked: {p}", op.show()), case_json(bits, &h)),
                Ok(got) if got != want => ctx.violation(case_key(bits, &h), format!("{} answered {:?}, reference says {:?}", op.show(), got, want), case_json(bits, &h)),
                Ok(_) => {
                    if let Err(m) = check_queries(&sets, &t, bits) {
                        ctx.violation(case_key(bits, &h), format!("after this history: {m}"), case_json(bits, &h));
                    }
                }
            }
            ctx.sample(|| json!({"bits": bits, "state": {"A": show_mask(s[0]), "B": show_mask(s[1])}, "history": h.iter().map(Op::show).collect::<Vec<_>>()}));
        }
    }
}

fn long_lived(ctx: &mut Ctx, bits: usize, depth: usize) {
    let ops = all_ops(bits);
    let mut base = 0u64;
    for len in 1..=depth {
        let mut n = 0;
        crate::enumerate::for_each_seq(ops.len(), len, &mut |idx, d| {
            n = idx + 1;
            if !ctx.mine(base + idx) {
                return;
            }
            let h: Vec<Op> = d.iter().map(|&i| ops[i]).collect();
            run_history(ctx, bits, &h, true);
            ctx.count("long_lived_sequences", 1);
            ctx.distinct(&(bits, &h));
        });
        base += n;
    }
}


// ---------------------------------------------------------------------------------------
// wide universes: b = 8, 16, 32, 64 bits, membership observed on a pool of six elements

#[derive(Clone, Copy, PartialEq, Eq, Debug)]
struct WideRef {
    /// membership of the pool elements
    mask: u8,
    /// does the set contain the elements outside the pool
    rest: bool,
}

fn wide_pool(bits: usize) -> Vec<usize> {
    let top = 1usize << (bits - 1);
    let all = if bits == 64 { usize::MAX } else { (1usize << bits) - 1 };
    if bits < 8 {
        // a middle bit, alternating bits, neighbours of the extremes
        vec![0, 1usize << (bits / 2), top, all, all / 3, all - 1]
    } else {
        vec![0, 1, top, all, all / 3, top | 1]
    }
}

fn wide_history(ctx: &mut Ctx, bits: usize, ops: &[(u8, u8, u8)]) {
    // op encoding: (kind, x, y): 0 insert pool[y] into set x; 1 union; 2 intersect; 3 complement
    // (x <- x op y, sets 0/1); 4 empty x; 5 universe x
    let case = json!({"part": "wide", "bits": bits, "ops": ops.iter().map(|(k, x, y)| vec![*k, *x, *y]).collect::<Vec<_>>()});
    ctx.begin_case(|| case.clone());
    ctx.count("wide_sequences", 1);
    let pool = wide_pool(bits);
    let sets = fresh(bits);
    let mut rf = [WideRef { mask: 0, rest: false }; 2];
    let key = || format!("b={bits}: {:?} (kind,x,y: 0 insert pool[y]={:?}.., 1 union, 2 intersect, 3 complement, 4 empty, 5 universe)", ops, &pool[..2]);
    for (i, (k, x, y)) in ops.iter().enumerate() {
        ctx.count("transitions", 1);
        let (xi, yi) = (*x as usize, *y as usize);
        let other = rf[yi % 2];
        match k {
            0 => rf[xi].mask |= 1 << yi,
            1 => {
                rf[xi].mask |= other.mask;
                rf[xi].rest |= other.rest;
            }
            2 => {
                rf[xi].mask &= other.mask;
                rf[xi].rest &= other.rest;
            }
            3 => {
                rf[xi].mask &= !other.mask;
                rf[xi].rest &= !other.rest;
            }
            4 => rf[xi] = WideRef { mask: 0, rest: false },
            _ => rf[xi] = WideRef { mask: 0x3f, rest: true },
        }
        let r = guarded(|| match k {
            0 => {
                sets[xi].insert(pool[yi]);
            }
            1 => {
                sets[xi].union(&sets[yi % 2]);
            }
            2 => {
                sets[xi].intersect(&sets[yi % 2]);
            }
            3 => {
                sets[xi].complement(&sets[yi % 2]);
            }
            4 => {
                sets[xi].empty();
            }
            _ => {
                sets[xi].universe();
            }
        });
        if let Err(p) = r {
            ctx.violation(key(), format!("step {i} panicked: {p}"), case.clone());
            return;
        }
        for s in 0..2 {
            for (pi, e) in pool.iter().enumerate() {
                let want = (rf[s].mask >> pi) & 1 == 1;
                match guarded(|| sets[s].contains(*e)) {
                    Err(p) => {
                        ctx.violation(key(), format!("contains({}, {e:#x}) panicked after step {i}: {p}", nm(s as u8)), case.clone());
                        return;
                    }
                    Ok(got) if got != want => {
                        ctx.violation(key(), format!("after step {i}: contains({}, {e:#x}) answered {got}, the reference says {want}", nm(s as u8)), case.clone());
                        return;
                    }
                    _ => {}
                }
            }
        }
    }
    ctx.distinct(&(bits, ops));
}

fn wide_sweep(ctx: &mut Ctx) {
    let mut alphabet: Vec<(u8, u8, u8)> = vec![];
    for x in 0..2u8 {
        for y in 0..6u8 {
            alphabet.push((0, x, y));
        }
        alphabet.push((4, x, 0));
        alphabet.push((5, x, 0));
    }
    for k in 1..=3u8 {
        for (x, y) in [(0u8, 1u8), (1, 0), (0, 0), (1, 1)] {
            alphabet.push((k, x, y));
        }
    }
    let depth = if ctx.thorough() { 3 } else { 2 };
    let mut idx = 0u64;
    for bits in [4usize, 5, 6, 7, 8, 9, 10, 11, 12, 13, 15, 16, 17, 23, 24, 25, 31, 32, 33, 48, 63, 64] {
        for len in 1..=depth {
            crate::enumerate::for_each_seq(alphabet.len(), len, &mut |_, d| {
                idx += 1;
                if ctx.mine(idx) {
                    let ops: Vec<(u8, u8, u8)> = d.iter().map(|i| alphabet[*i]).collect();
                    wide_history(ctx, bits, &ops);
                }
            });
        }
    }
}

/// one set sees all 16 elements of a 4-bit universe: long insert / query patterns
fn long_histories_b4(ctx: &mut Ctx) {
    let mut idx = 0u64;
    for s in 0..16u8 {
        for t in [1u8, 3, 5, 7] {
            let walk: Vec<u8> = (0..16u8).map(|i| (s + t * i) % 16).collect();
            let mut patterns: Vec<Vec<Op>> = vec![];
            // insert one element, query all others, query it again
            let mut p: Vec<Op> = vec![Op::Insert(0, s)];
            p.extend(walk[1..].iter().map(|e| Op::Contains(0, *e)));
            p.push(Op::Contains(0, s));
            patterns.push(p);
            // insert 12 distinct elements, then query all 16
            let mut p: Vec<Op> = walk[..12].iter().map(|e| Op::Insert(0, *e)).collect();
            p.extend(walk.iter().map(|e| Op::Contains(0, *e)));
            patterns.push(p);
            // alternate inserts into A and B, union, then queries on both
            let mut p: Vec<Op> = walk[..10].iter().enumerate().map(|(i, e)| Op::Insert((i % 2) as u8, *e)).collect();
            p.push(Op::Union(0, 1));
            p.push(Op::Complement(1, 0));
            p.extend(walk.iter().flat_map(|e| [Op::Contains(0, *e), Op::Contains(1, *e)]));
            patterns.push(p);
            for p in patterns {
                for every in [false, true] {
                    idx += 1;
                    if ctx.mine(idx) {
                        run_history(ctx, 4, &p, every);
                        ctx.count("long_histories_b4", 1);
                        ctx.distinct(&(4u8, &p, every));
                    }
                }
            }
        }
    }
}

/// b = 4: a representative of every class of 16-element subsets (the 222 classes of
/// four-variable functions under bit permutation / bit negation / complement) against EVERY
/// one of the 65 536 subsets, for union / intersect / set difference in both operand
/// positions. Every subset is built once per worker by real inserts (ascending), its
/// membership answers are checked for all 16 elements (each subset by the worker that owns
/// it); a binary operation is judged by comparing the receiver's diagram with the
/// insert-built set of the expected subset, and, when the diagrams differ, by asking all 16
/// membership questions. A violation is reported as the insert history that reproduces it.
fn pairs_b4(ctx: &mut Ctx) {
    let env = Rc::new(BDDEnv::new());
    let mut sets: Vec<BDDSet> = Vec::with_capacity(65536);
    sets.push(BDDSet::with_env(4, &env));
    for m in 1..65536usize {
        let top = 15 - (m as u16).leading_zeros() as usize;
        let s = sets[m & !(1 << top)].clone();
        s.insert(top);
        sets.push(s);
    }
    let history = |a: usize, b: usize, op: Op| -> Vec<Op> {
        let mut h: Vec<Op> = (0..16u8).filter(|e| (a >> e) & 1 == 1).map(|e| Op::Insert(0, e)).collect();
        h.extend((0..16u8).filter(|e| (b >> e) & 1 == 1).map(|e| Op::Insert(1, e)));
        h.push(op);
        h
    };
    let reps: Vec<usize> = crate::closure::npn_reps4().into_iter().map(|t| t as usize).collect();
    ctx.global("subset_classes_b4", reps.len() as u64);
    for b in 0..65536usize {
        if !ctx.mine(b as u64) {
            continue;
        }
        // the insert-built subset answers all membership questions correctly
        ctx.begin_case(|| case_json(4, &history(b, 0, Op::Contains(0, 0))));
        let pair = [sets[b].clone(), sets[0].clone()];
        if let Err(m) = check_queries(&pair, &[b as u16, 0], 4) {
            let h = history(b, 0, Op::Contains(0, 0));
            ctx.violation(case_key(4, &h), format!("after this history: {m}"), case_json(4, &h));
            continue;
        }
        for &a in &reps {
            for (x, y, opx) in [(a, b, 0u8), (b, a, 1u8)] {
                for k in 0..3 {
                    // receiver x, argument y; as a replayable history the receiver is set A
                    let op = [Op::Union(0, 1), Op::Intersect(0, 1), Op::Complement(0, 1)][k];
                    let want = [x | y, x & y, x & !y & 0xffff][k];
                    ctx.count("transitions", 1);
                    ctx.count("subset_pairs_b4", 1);
                    ctx.count("distinct_by_construction", 1);
                    let _ = opx;
                    let pair = [sets[x].clone(), sets[y].clone()];
                    let r = apply_real(&pair, op);
                    let same = r.is_ok() && *pair[0].bdd.borrow() == *sets[want].bdd.borrow() && *pair[1].bdd.borrow() == *sets[y].bdd.borrow();
                    if same {
                        continue;
                    }
                    let h = history(x, y, op);
                    ctx.begin_case(|| case_json(4, &h));
                    match r {
                        Err(p) => ctx.violation(case_key(4, &h), format!("{} panicked: {p}", op.show()), case_json(4, &h)),
                        Ok(_) => {
                            if let Err(m) = check_queries(&pair, &[want as u16, y as u16], 4) {
                                ctx.violation(case_key(4, &h), format!("after this history: {m}"), case_json(4, &h));
                            } else {
                                ctx.count("subset_pairs_b4_same_members_other_diagram", 1);
                            }
                        }
                    }
                }
            }
        }
    }
}

/// a long-running 16-bit environment: two sets share it; one receives 40 inserts and is asked
/// thousands of membership questions (each builds nodes), then the OTHER set — still empty, later
/// the universe, later emptied again — is operated on; everything is compared with reference sets
fn big_environment(ctx: &mut Ctx) {
    use std::collections::BTreeSet;
    let c = json!({"part": "big-environment"});
    ctx.begin_case(|| c.clone());
    ctx.count("big_environment_histories", 1);
    let r = guarded(|| -> Option<String> {
        let env = Rc::new(BDDEnv::new());
        let (a, b) = (BDDSet::with_env(16, &env), BDDSet::with_env(16, &env));
        let (mut ra, mut rb): (BTreeSet<usize>, BTreeSet<usize>) = (BTreeSet::new(), BTreeSet::new());
        let elem = |i: usize| (i * 40503 + 7) % 65536;
        let ask = |s: &BDDSet, r: &BTreeSet<usize>, name: &str, upto: usize, step: usize| -> Option<String> {
            for e in (0..upto).step_by(step) {
                if s.contains(e) != r.contains(&e) {
                    return Some(format!("contains({name}, {e}) answered {}, the reference says {}", !r.contains(&e), r.contains(&e)));
                }
            }
            None
        };
        for round in 0..4usize {
            for i in 0..40 {
                b.insert(elem(i + 40 * round));
                rb.insert(elem(i + 40 * round));
            }
            if let Some(m) = ask(&b, &rb, "B", 3500, 1) {
                return Some(format!("round {round}: {m}"));
            }
            // A is empty / universe / emptied again / a small set when the environment is large
            match round {
                0 => {
                    a.insert(7usize);
                    ra.insert(7);
                }
                1 => {
                    a.universe();
                    a.complement(&b);
                    ra = (0..65536).filter(|e| !rb.contains(e)).collect();
                }
                2 => {
                    a.empty();
                    a.union(&b);
                    ra = rb.clone();
                }
                _ => {
                    a.empty();
                    a.intersect(&b);
                    ra.clear();
                    a.insert(65535usize);
                    ra.insert(65535);
                }
            }
            if let Some(m) = ask(&a, &ra, "A", 65536, 97).or_else(|| ask(&b, &rb, "B", 65536, 89)) {
                return Some(format!("after round {round}: {m}"));
            }
            for e in rb.iter().chain(ra.iter().take(50)) {
                if a.contains(*e) != ra.contains(e) || b.contains(*e) != rb.contains(e) {
                    return Some(format!("after round {round}: membership of {e} is wrong"));
                }
            }
        }
        None
    });
    match r {
        Err(p) => ctx.violation("C19 long 16-bit environment".to_string(), format!("panicked: {p}"), c),
        Ok(Some(m)) => ctx.violation("C19 long 16-bit environment".to_string(), m, c),
        Ok(None) => ctx.count("transitions", 20000),
    }
}

/// THREE sets in one environment (b = 2): A1 and A2 start as the universe, B as {0}; then every
/// sequence of <= 5 operations out of: union / intersect / difference of A1 or A2 with B,
/// insert of each element into B, difference of B with A1 — compared with reference masks after
/// every step. And operands that are short-lived temporaries created in a loop.
fn three_sets(ctx: &mut Ctx) {
    // op: (kind, receiver, arg): kind 0 union, 1 intersect, 2 difference, 3 insert elem=arg into B
    let mut alphabet: Vec<(u8, u8, u8)> = vec![];
    for k in 0..3u8 {
        for r in 0..2u8 {
            alphabet.push((k, r, 2));
        }
    }
    for e in 0..4u8 {
        alphabet.push((3, 2, e));
    }
    alphabet.push((2, 2, 0));
    let depth = 5;
    let mut idx = 1u64 << 44;
    for len in 1..=depth {
        crate::enumerate::for_each_seq(alphabet.len(), len, &mut |_, d| {
            idx += 1;
            if !ctx.mine(idx) {
                return;
            }
            let ops: Vec<(u8, u8, u8)> = d.iter().map(|i| alphabet[*i]).collect();
            let case = json!({"part": "three-sets", "ops": ops.iter().map(|o| vec![o.0, o.1, o.2]).collect::<Vec<_>>()});
            ctx.begin_case(|| case.clone());
            ctx.count("three_set_sequences", 1);
            ctx.count("distinct_by_construction", 1);
            let r = guarded(|| -> Option<String> {
                let env = Rc::new(BDDEnv::new());
                let sets = [BDDSet::with_env(2, &env), BDDSet::with_env(2, &env), BDDSet::with_env(2, &env)];
                sets[0].universe();
                sets[1].universe();
                sets[2].insert(0usize);
                let mut m: [u8; 3] = [0xf, 0xf, 0x1];
                for (i, (k, r, x)) in ops.iter().enumerate() {
                    let (r, x) = (*r as usize, *x as usize);
                    match k {
                        0 => {
                            sets[r].union(&sets[x]);
                            m[r] |= m[x];
                        }
                        1 => {
                            sets[r].intersect(&sets[x]);
                            m[r] &= m[x];
                        }
                        2 => {
                            sets[r].complement(&sets[x]);
                            m[r] &= !m[x] & 0xf;
                        }
                        _ => {
                            sets[2].insert(x);
                            m[2] |= 1 << x;
                        }
                    }
                    for (si, s) in sets.iter().enumerate() {
                        for e in 0..4usize {
                            if s.contains(e) != ((m[si] >> e) & 1 == 1) {
                                return Some(format!("after step {}: set {} answers {} for element {e}, the reference says {}", i + 1, ["A1", "A2", "B"][si], s.contains(e), (m[si] >> e) & 1 == 1));
                            }
                        }
                    }
                }
                None
            });
            match r {
                Err(p) => ctx.violation(format!("C19 three sets: {:?}", ops), format!("panicked: {p}"), case),
                Ok(Some(mm)) => ctx.violation(format!("C19 three sets (A1 = A2 = universe, B = {{0}}; kind 0 union, 1 intersect, 2 difference, 3 insert into B): {:?}", ops), mm, case),
                Ok(None) => {}
            }
        });
    }
    // temporaries: an accumulator receives unions / differences of sets that live for one loop turn
    if ctx.shard == 3 % ctx.nshards {
        // in a FRESH environment: a set dies while it is empty / the universe before anything else
        // was ever built
        for bits in [0usize, 1, 2, 5] {
            for mirror in [false, true] {
                let case = json!({"part": "temporaries", "bits": bits, "fresh": true, "mirror": mirror});
                ctx.begin_case(|| case.clone());
                let r = guarded(|| -> Option<String> {
                    let env = Rc::new(BDDEnv::new());
                    let a = BDDSet::with_env(bits, &env);
                    if !mirror {
                        a.universe();
                        drop(BDDSet::with_env(bits, &env));
                        if !a.contains(0usize) {
                            return Some("the universe does not contain 0 after an empty set of the same environment was dropped".to_string());
                        }
                    } else {
                        {
                            let t = BDDSet::with_env(bits, &env);
                            t.universe();
                        }
                        a.insert(0usize);
                        if !a.contains(0usize) {
                            return Some("0 is missing after its insertion following the drop of a universe set".to_string());
                        }
                    }
                    None
                });
                match r {
                    Err(p) => ctx.violation(format!("C19 a set dropped while constant, fresh environment, {bits} bits, mirror {mirror}"), format!("panicked: {p}"), case),
                    Ok(Some(m)) => ctx.violation(format!("C19 a set dropped while constant, fresh environment, {bits} bits, mirror {mirror}"), m, case),
                    Ok(None) => ctx.count("temporary_operand_histories", 1),
                }
            }
        }
        for bits in [2usize, 4, 9] {
            let case = json!({"part": "temporaries", "bits": bits});
            ctx.begin_case(|| case.clone());
            let r = guarded(|| -> Option<String> {
                let env = Rc::new(BDDEnv::new());
                let acc = BDDSet::with_env(bits, &env);
                let mut want = std::collections::BTreeSet::new();
                let n = 1usize << bits.min(6);
                for x in (0..n).map(|i| (i * 7 + 3) % (1 << bits)) {
                    let tmp = BDDSet::from_element(x, bits, &env);
                    acc.union(&tmp);
                    want.insert(x);
                }
                for x in (0..n).step_by(3).map(|i| (i * 7 + 3) % (1 << bits)) {
                    let tmp = BDDSet::from_element(x, bits, &env);
                    acc.complement(&tmp);
                    want.remove(&x);
                    // sets that die while they are empty / the universe / emptied again
                    drop(BDDSet::with_env(bits, &env));
                    let u = BDDSet::with_env(bits, &env);
                    u.universe();
                    drop(u);
                    let e = BDDSet::from_element(x, bits, &env);
                    e.empty();
                    drop(e);
                    if !acc.contains(x) == false {
                        return Some(format!("element {x} is still reported after its removal"));
                    }
                }
                // the accumulator itself goes through universe and empty with droppings in between
                let other = BDDSet::with_env(bits, &env);
                other.universe();
                drop(BDDSet::with_env(bits, &env));
                if !other.contains(0usize) {
                    return Some("the universe does not contain 0 after another empty set was dropped".to_string());
                }
                other.empty();
                {
                    let t = BDDSet::with_env(bits, &env);
                    t.universe();
                }
                if other.contains(0usize) {
                    return Some("the empty set contains 0 after a universe set was dropped".to_string());
                }
                for e in 0..(1usize << bits) {
                    if acc.contains(e) != want.contains(&e) {
                        return Some(format!("after unions and differences with one-turn temporaries, element {e}: {} (reference {})", acc.contains(e), want.contains(&e)));
                    }
                }
                None
            });
            match r {
                Err(p) => ctx.violation(format!("C19 temporaries, {bits} bits"), format!("panicked: {p}"), case),
                Ok(Some(m)) => ctx.violation(format!("C19 temporaries, {bits} bits"), m, case),
                Ok(None) => ctx.count("temporary_operand_histories", 1),
            }
        }
    }
}

fn run(ctx: &mut Ctx) {
    three_sets(ctx);
    if ctx.shard == 1 % ctx.nshards {
        big_environment(ctx);
    }
    pairs_b4(ctx);
    long_histories_b4(ctx);
    bfs(ctx, 2);
    bfs(ctx, 3);
    long_lived(ctx, 2, if ctx.thorough() { 5 } else { 4 });
    long_lived(ctx, 3, if ctx.thorough() { 4 } else { 3 });
    wide_sweep(ctx);
    let s2 = ctx.globals.get("states_b2").copied().unwrap_or(0);
    let s3 = ctx.globals.get("states_b3").copied().unwrap_or(0);
    ctx.global("states", s2 + s3);
}

fn replay(ctx: &mut Ctx, case: &Value) {
    if case["part"].as_str() == Some("three-sets") || case["part"].as_str() == Some("temporaries") {
        let mut c2 = Ctx::new("C19", ctx.tier, ctx.seed, 0, 1);
        three_sets(&mut c2);
        for v in c2.violations {
            if v.replay == *case {
                ctx.violation(v.key, v.what, v.replay);
            }
        }
        return;
    }
    if case["part"].as_str() == Some("big-environment") {
        big_environment(ctx);
        return;
    }
    if case["part"].as_str() == Some("wide") {
        let ops: Vec<(u8, u8, u8)> = case["ops"].as_array().map(|a| a.iter().map(|o| (o[0].as_u64().unwrap_or(0) as u8, o[1].as_u64().unwrap_or(0) as u8, o[2].as_u64().unwrap_or(0) as u8)).collect()).unwrap_or_default();
        wide_history(ctx, case["bits"].as_u64().unwrap_or(8) as usize, &ops);
        return;
    }
    let bits = case["bits"].as_u64().unwrap_or(2) as usize;
    let ops: Vec<Op> = case["ops"].as_array().map(|a| a.iter().filter_map(|s| s.as_str().and_then(Op::parse)).collect()).unwrap_or_default();
    run_history(ctx, bits, &ops, true);
}
