//! C18 — random_graph_gen outputs the graph that was asked for. The generator's random
//! choices are owned through the scripted-RNG hook: every Fisher-Yates choice vector is run.

use crate::cli::{run_bin, scratch_file, Run};
use rustc_hash::FxHashSet;
use crate::enumerate::for_each_seq;
use crate::runner::{Ctx, Engine};
use serde_json::{json, Value};

pub static ENGINE: Engine = Engine {
    prop: "C18",
    level: "exploration",
    rule: "the real random_graph_gen binary with its random source scripted through the verif-hooks feature: for every (V, -u) whose candidate edge list has m <= 6 entries (directed V <= 3, undirected V <= 4) ALL m! Fisher-Yates choice vectors x every E in 0..m+1 x {edge list, --dot}: exactly E distinct edges, endpoints distinct and among v0..v(V-1), no reversed pair under -u, E > m refused with non-zero exit and no edge printed, and the number of distinct outputs over all vectors equals m!/(m-E)! (proof that every choice is owned). For larger candidate lists (V=4,5 directed; V=5,6 undirected; m = 10..20) every ORDERED SELECTION of E <= 2 (3) candidate edges is forced by a constructed choice vector. -o FILE onto an existing longer file = stdout of the same request, also for --convert and for --convert F -o F (in place). --complete x V in 0..5 x -u x {no E, E = 0, 1, m, m+1, 50} = all pairs. --convert: every edge list <= 3 over {a,b,c} x -u x {csv, --dot} x {newline-terminated, no final newline} reproduces the list (reversed duplicates merged under -u); also lists <= 2 with self-loops and with vertex names that look like keywords of graph formats (graph1, digraph, strict_x, node, edge, subgraph). --colors k: every loop-free graph on <= 4 named vertices (two name families, one with names that are prefixes of each other) x k in 0..3: the output has a clique choosing one (vertex,colour) per input vertex iff the input is k-colourable (brute force). Larger inputs: graphs on five vertices with two-digit names x k in 2..4 (every third graph in quick, all 1023 in thorough) and edge lists of 4..10 edges through --convert. Labelled supplement: un-scripted runs with fresh entropy (sampled, not part of the claim). distinct = distinct (argv, script, stdout)",
    assumptions: &["the hook replays RSBDD_VERIF_RNG as the u32 values drawn by rand 0.8's shuffle (widening-multiply index sampling); a mismatch shows up as a wrong number of distinct outputs", "k-colourability is defined on loop-free graphs; isolated vertices cannot be expressed in an edge list"],
    max_shards: 64,
    run,
    replay,
};

const TAG: &str = "C18";

/// u32 that makes rand 0.8's gen_range(0..r) return j
fn draw_for(j: u64, r: u64) -> u32 {
    (((j << 32) + r - 1) / r) as u32
}

fn parse_edges(out: &str, dot: bool, undirected: bool) -> Result<Vec<(String, String)>, String> {
    let mut edges = vec![];
    if dot {
        let mut lines = out.lines();
        let first = lines.next().unwrap_or("");
        let want = if undirected { "graph G {" } else { "digraph G {" };
        if first != want {
            return Err(format!("dot output starts with {:?}, expected {:?}", first, want));
        }
        let sep = if undirected { " -- " } else { " -> " };
        let mut closed = false;
        for l in lines {
            if l == "}" {
                closed = true;
                continue;
            }
            if closed {
                return Err("text after closing brace".into());
            }
            let (a, b) = l.trim().split_once(sep).ok_or_else(|| format!("bad dot edge line {:?}", l))?;
            edges.push((a.to_string(), b.to_string()));
        }
        if !closed {
            return Err("dot output not closed".into());
        }
    } else {
        for l in out.lines() {
            let (a, b) = l.split_once(',').ok_or_else(|| format!("bad edge line {:?}", l))?;
            edges.push((a.to_string(), b.to_string()));
        }
    }
    Ok(edges)
}

fn gen_case(v: usize, e: usize, u: bool, dot: bool, script: &[u32]) -> Value {
    json!({"part": "generate", "v": v, "e": e, "undirected": u, "dot": dot, "script": script})
}

fn run_generate(v: usize, e: usize, u: bool, dot: bool, script: Option<&[u32]>) -> Run {
    let mut args = vec![v.to_string(), e.to_string()];
    if u {
        args.push("-u".into());
    }
    if dot {
        args.push("--dot".into());
    }
    let env: Vec<(&str, String)> = match script {
        Some(s) => vec![("RSBDD_VERIF_RNG", s.iter().map(|x| x.to_string()).collect::<Vec<_>>().join(","))],
        None => vec![],
    };
    run_bin("random_graph_gen", &args, None, &env)
}

/// judge one generated graph; returns the canonical edge list for distinctness counting
fn judge_generated(r: &Run, v: usize, e: usize, u: bool, dot: bool, m: usize) -> Result<Option<Vec<(String, String)>>, String> {
    if e > m {
        if r.ok() || r.crashed() {
            return Err(format!("{e} edges were requested but only {m} exist: expected a refusal, got {} with stdout {:?}", r.describe(), r.out()));
        }
        if r.out().contains(',') || r.out().contains("--") || r.out().contains("->") {
            return Err(format!("request refused but edges were printed: {:?}", r.out()));
        }
        return Ok(None);
    }
    if !r.ok() {
        return Err(format!("a satisfiable request failed: {} {}", r.describe(), r.err_tail()));
    }
    let edges = parse_edges(&r.out(), dot, u)?;
    if edges.len() != e {
        return Err(format!("{} edges printed, {e} requested", edges.len()));
    }
    let names: Vec<String> = (0..v).map(|i| format!("v{i}")).collect();
    for (i, (a, b)) in edges.iter().enumerate() {
        if !names.contains(a) || !names.contains(b) {
            return Err(format!("edge {a},{b} uses a vertex outside v0..v{}", v as isize - 1));
        }
        if a == b {
            return Err(format!("self-loop {a},{b}"));
        }
        for (c, d) in &edges[..i] {
            if (a == c && b == d) || (u && a == d && b == c) {
                return Err(format!("edge {a},{b} appears twice{}", if u { " (up to orientation)" } else { "" }));
            }
        }
    }
    Ok(Some(edges))
}

fn factorial(n: usize) -> u64 {
    (1..=n as u64).product()
}

fn scripted_sweep(ctx: &mut Ctx, only: Option<(usize, usize, bool, bool, Vec<u32>)>) {
    let mut idx = 0u64;
    let configs: Vec<(usize, bool)> = vec![(0, false), (1, false), (2, false), (3, false), (0, true), (1, true), (2, true), (3, true), (4, true)];
    for (v, u) in configs {
        let m = if u { v * v.saturating_sub(1) / 2 } else { v * v.saturating_sub(1) };
        // all Fisher-Yates choice vectors: position i (from m-1 down to 1) draws from 0..=i
        let radices: Vec<u64> = (1..m).rev().map(|i| i as u64 + 1).collect();
        let nvec: u64 = radices.iter().product::<u64>().max(1);
        for e in 0..=(m + 1) {
            for dot in [false, true] {
                // each worker handles whole (v,u,e,dot) groups so that it can count distinct outputs
                idx += 1;
                if let Some((ov, oe, ou, od, _)) = &only {
                    if (*ov, *oe, *ou, *od) != (v, e, u, dot) {
                        continue;
                    }
                } else if !ctx.mine(idx) {
                    continue;
                }
                let mut outputs: Vec<Vec<(String, String)>> = vec![];
                let mut failed = false;
                for code in 0..nvec {
                    let mut c = code;
                    let mut script: Vec<u32> = vec![];
                    for r in &radices {
                        let j = c % r;
                        c /= r;
                        script.push(draw_for(j, *r));
                    }
                    if let Some((_, _, _, _, s)) = &only {
                        if *s != script {
                            continue;
                        }
                    }
                    ctx.begin_case(|| gen_case(v, e, u, dot, &script));
                    ctx.count("evaluations", 1);
                    ctx.count("scripted_runs", 1);
                    let r = run_generate(v, e, u, dot, Some(&script));
                    let key = format!("{TAG} random_graph_gen {v} {e}{}{} with random draws {:?}", if u { " -u" } else { "" }, if dot { " --dot" } else { "" }, script);
                    ctx.distinct(&(v, e, u, dot, &script, &r.stdout));
                    match judge_generated(&r, v, e, u, dot, m) {
                        Err(msg) => {
                            ctx.violation(key, msg, gen_case(v, e, u, dot, &script));
                            failed = true;
                        }
                        Ok(Some(edges)) => {
                            if !outputs.contains(&edges) {
                                outputs.push(edges);
                            }
                        }
                        Ok(None) => {}
                    }
                }
                if only.is_none() && !failed && e <= m {
                    let want = factorial(m) / factorial(m - e);
                    if outputs.len() as u64 != want {
                        ctx.violation(
                            format!("{TAG} random_graph_gen {v} {e}{}: outputs over all random choices", if u { " -u" } else { "" }),
                            format!("{} distinct graphs over all {nvec} choice vectors, expected {want} (every ordered selection of {e} of the {m} candidate edges exactly; otherwise the harness does not own the randomness or the shuffle is not uniform)", outputs.len()),
                            gen_case(v, e, u, dot, &[]),
                        );
                    }
                    ctx.sample(|| json!({"v": v, "e": e, "undirected": u, "dot": dot, "choice_vectors": nvec, "distinct_outputs": outputs.len()}));
                }
            }
        }
    }
}


/// choice vector (as u32 draws) that makes the Fisher-Yates shuffle of 0..m end in `target`
fn script_for_permutation(target: &[usize]) -> Vec<u32> {
    let m = target.len();
    let mut arr: Vec<usize> = (0..m).collect();
    let mut script = vec![];
    for i in (1..m).rev() {
        let j = arr.iter().position(|x| *x == target[i]).expect("permutation");
        debug_assert!(j <= i);
        arr.swap(i, j);
        script.push(draw_for(j as u64, i as u64 + 1));
    }
    script
}

/// larger candidate lists (m = 10..20): every ORDERED SELECTION of E <= 2 (3) candidate
/// edges is produced once by a choice vector constructed for it
fn selection_sweep(ctx: &mut Ctx) {
    let mut idx = 0u64;
    let th = ctx.thorough();
    for (v, u) in [(4usize, false), (5, true), (5, false), (6, true)] {
        let m = if u { v * (v - 1) / 2 } else { v * (v - 1) };
        for e in 1..=(if th && m <= 12 { 3 } else { 2 }) {
            idx += 1;
            if !ctx.mine(idx) {
                continue;
            }
            let mut outputs: Vec<Vec<(String, String)>> = vec![];
            let mut failed = false;
            let mut sels: Vec<Vec<usize>> = vec![];
            for_each_seq(m, e, &mut |_, d| {
                let mut dd = d.to_vec();
                dd.sort_unstable();
                dd.dedup();
                if dd.len() == e {
                    sels.push(d.to_vec());
                }
            });
            for sel in &sels {
                let mut target = sel.clone();
                target.extend((0..m).filter(|x| !sel.contains(x)));
                let script = script_for_permutation(&target);
                ctx.begin_case(|| gen_case(v, e, u, false, &script));
                ctx.count("evaluations", 1);
                ctx.count("selection_runs", 1);
                let r = run_generate(v, e, u, false, Some(&script));
                ctx.distinct(&(v, e, u, &script, &r.stdout));
                let key = format!("{TAG} random_graph_gen {v} {e}{} with random draws {:?}", if u { " -u" } else { "" }, script);
                match judge_generated(&r, v, e, u, false, m) {
                    Err(msg) => {
                        ctx.violation(key, msg, gen_case(v, e, u, false, &script));
                        failed = true;
                    }
                    Ok(Some(edges)) => {
                        if !outputs.contains(&edges) {
                            outputs.push(edges);
                        }
                    }
                    Ok(None) => {}
                }
            }
            if !failed && outputs.len() != sels.len() {
                ctx.violation(
                    format!("{TAG} random_graph_gen {v} {e}{}: outputs over all ordered selections", if u { " -u" } else { "" }),
                    format!("{} distinct graphs for {} ordered selections of {e} of the {m} candidate edges", outputs.len(), sels.len()),
                    gen_case(v, e, u, false, &[]),
                );
            }
        }
    }
}


/// `-o FILE`: the file must hold exactly what stdout would show, also when FILE existed
/// before and was longer
fn output_file_sweep(ctx: &mut Ctx) {
    let filler = "v9,v8\n".repeat(400);
    let mut idx = 0u64;
    for (v, e, u, dot) in [(3usize, 2usize, false, false), (3, 6, false, true), (4, 3, true, false), (4, 6, true, true), (2, 0, false, false), (1, 0, true, true)] {
        idx += 1;
        if !ctx.mine(idx) {
            continue;
        }
        let m = if u { v * v.saturating_sub(1) / 2 } else { v * v.saturating_sub(1) };
        let target: Vec<usize> = (0..m).rev().collect();
        let script = script_for_permutation(&target);
        let c = json!({"part": "outfile", "v": v, "e": e, "undirected": u, "dot": dot});
        ctx.begin_case(|| c.clone());
        ctx.count("evaluations", 1);
        ctx.count("output_file_runs", 1);
        let reference = run_generate(v, e, u, dot, Some(&script));
        let f = scratch_file("out-existing.txt", filler.as_bytes());
        let mut args = vec![v.to_string(), e.to_string(), "-o".to_string(), f.display().to_string()];
        if u {
            args.push("-u".into());
        }
        if dot {
            args.push("--dot".into());
        }
        let env: Vec<(&str, String)> = vec![("RSBDD_VERIF_RNG", script.iter().map(|x| x.to_string()).collect::<Vec<_>>().join(","))];
        let r = run_bin("random_graph_gen", &args, None, &env);
        let key = format!("{TAG} random_graph_gen {}", args.iter().map(|a| if a.contains('/') { "<existing file>".to_string() } else { a.clone() }).collect::<Vec<_>>().join(" "));
        ctx.distinct(&(v, e, u, dot, "outfile"));
        let written = std::fs::read(&f).unwrap_or_default();
        if !r.ok() || !reference.ok() {
            ctx.violation(key, format!("run failed: {} {}", r.describe(), r.err_tail()), c);
        } else if written != reference.stdout {
            ctx.violation(key, format!("the output file holds {} bytes that differ from what the same request prints on stdout ({} bytes); it existed before with longer content", written.len(), reference.stdout.len()), c);
        }
    }
}

/// `--convert F -o G`: the file G holds what the same request prints on stdout — also when G is
/// an existing longer file, and when G is F itself (conversion in place)
fn convert_output_sweep(ctx: &mut Ctx) {
    let lists: [&[(&str, &str)]; 3] = [&[("a", "b"), ("b", "a"), ("b", "c")], &[("v10", "v2")], &[("p", "q"), ("q", "r"), ("r", "p"), ("p", "q")]];
    let mut idx = 1u64 << 40;
    for l in lists {
        for u in [false, true] {
            for dot in [false, true] {
                for in_place in [false, true] {
                    idx += 1;
                    if !ctx.mine(idx) {
                        continue;
                    }
                    let edges: Vec<(String, String)> = l.iter().map(|(a, b)| (a.to_string(), b.to_string())).collect();
                    let c = json!({"part": "convert-outfile", "edges": l.iter().map(|(a, b)| vec![a.to_string(), b.to_string()]).collect::<Vec<_>>(), "undirected": u, "dot": dot, "in_place": in_place});
                    ctx.begin_case(|| c.clone());
                    ctx.count("evaluations", 1);
                    ctx.count("output_file_runs", 1);
                    let csv: String = edges.iter().map(|(a, b)| format!("{a},{b}\n")).collect();
                    let input = scratch_file("convert-in.csv", csv.as_bytes());
                    let mut base = vec!["--convert".to_string(), input.display().to_string()];
                    if u {
                        base.push("-u".into());
                    }
                    if dot {
                        base.push("--dot".into());
                    }
                    let reference = run_bin("random_graph_gen", &base, None, &[]);
                    let out = if in_place { input.clone() } else { scratch_file("convert-out.txt", "v9,v8\n".repeat(400).as_bytes()) };
                    let mut args = base.clone();
                    args.extend(["-o".to_string(), out.display().to_string()]);
                    let r = run_bin("random_graph_gen", &args, None, &[]);
                    let written = std::fs::read(&out).unwrap_or_default();
                    let key = format!("{TAG} --convert {:?}{}{} -o {}", csv, if u { " -u" } else { "" }, if dot { " --dot" } else { "" }, if in_place { "<the input file itself>" } else { "<existing longer file>" });
                    ctx.distinct(&(&csv, u, dot, in_place));
                    if !r.ok() || !reference.ok() {
                        ctx.violation(key, format!("run failed: {} {}", r.describe(), r.err_tail()), c);
                    } else if written != reference.stdout {
                        ctx.violation(key, format!("the output file holds {:?}, the same request prints {:?} on stdout", String::from_utf8_lossy(&written), reference.out()), c);
                    }
                }
            }
        }
    }
}

fn complete_sweep(ctx: &mut Ctx) {
    for v in 0..=5usize {
        for u in [false, true] {
            for dot in [false, true] {
                let m = if u { v * v.saturating_sub(1) / 2 } else { v * v.saturating_sub(1) };
                // --complete yields all pairs whether or not an edge count is given as well
                for e in [None, Some(0usize), Some(1), Some(m), Some(m + 1), Some(50)] {
                    let c = json!({"part": "complete", "v": v, "undirected": u, "dot": dot, "edges": e});
                    ctx.begin_case(|| c.clone());
                    ctx.count("evaluations", 1);
                    ctx.count("complete_runs", 1);
                    let mut args = vec![v.to_string()];
                    if let Some(e) = e {
                        args.push(e.to_string());
                    }
                    args.push("--complete".to_string());
                    if u {
                        args.push("-u".into());
                    }
                    if dot {
                        args.push("--dot".into());
                    }
                    let r = run_bin("random_graph_gen", &args, None, &[]);
                    let key = format!("{TAG} random_graph_gen {}", args.join(" "));
                    ctx.distinct(&(&args, &r.stdout));
                    match judge_generated(&r, v, m, u, dot, m) {
                        Err(msg) => ctx.violation(key, format!("--complete: {msg}"), c),
                        Ok(_) => {}
                    }
                }
            }
        }
    }
}

fn convert_case(edges: &[(String, String)], u: bool, colors: Option<usize>) -> Value {
    json!({"part": "convert", "edges": edges.iter().map(|(a, b)| vec![a.clone(), b.clone()]).collect::<Vec<_>>(), "undirected": u, "colors": colors})
}

fn check_convert(ctx: &mut Ctx, edges: &[(String, String)], u: bool, dot: bool) {
    // the file as a text editor leaves it (newline after every line) and without a newline
    // after its last line
    check_convert_layout(ctx, edges, u, dot, 0);
    if !edges.is_empty() {
        check_convert_layout(ctx, edges, u, dot, 1);
        // a UTF-8 byte-order mark in front (what spreadsheet exports write)
        check_convert_layout(ctx, edges, u, dot, 2);
    }
}

fn check_convert_layout(ctx: &mut Ctx, edges: &[(String, String)], u: bool, dot: bool, layout: usize) {
    let no_final_newline = layout == 1;
    ctx.begin_case(|| convert_case(edges, u, None));
    ctx.count("evaluations", 1);
    let csv: String = if no_final_newline { edges.iter().map(|(a, b)| format!("{a},{b}")).collect::<Vec<_>>().join("\n") } else { edges.iter().map(|(a, b)| format!("{a},{b}\n")).collect() };
    let csv = if layout == 2 { format!("\u{feff}{csv}") } else { csv };
    let f = scratch_file("graph.csv", csv.as_bytes());
    let mut args = vec!["--convert".to_string(), f.display().to_string()];
    if u {
        args.push("-u".into());
    }
    if dot {
        args.push("--dot".into());
    }
    let r = run_bin("random_graph_gen", &args, None, &[]);
    let key = format!("{TAG} --convert {:?}{}{}", csv, if u { " -u" } else { "" }, if dot { " --dot" } else { "" });
    ctx.distinct(&(&csv, u, &r.stdout));
    if !r.ok() {
        ctx.violation(key, format!("failed: {} {}", r.describe(), r.err_tail()), convert_case(edges, u, None));
        return;
    }
    // expected: the list itself; under -u an edge whose reverse was already kept is dropped
    let mut want: Vec<(String, String)> = vec![];
    for (a, b) in edges {
        if !(u && want.contains(&(b.clone(), a.clone()))) {
            want.push((a.clone(), b.clone()));
        }
    }
    match parse_edges(&r.out(), dot, u) {
        Err(e) => ctx.violation(key, e, convert_case(edges, u, None)),
        Ok(got) => {
            if got != want {
                ctx.violation(key, format!("printed {:?}, expected {:?}", got, want), convert_case(edges, u, None));
            }
        }
    }
}

fn check_colors(ctx: &mut Ctx, edges: &[(String, String)], k: usize) {
    ctx.begin_case(|| convert_case(edges, true, Some(k)));
    ctx.count("evaluations", 1);
    ctx.count("colouring_cases", 1);
    let csv: String = edges.iter().map(|(a, b)| format!("{a},{b}\n")).collect();
    let f = scratch_file("graph.csv", csv.as_bytes());
    let args = vec!["--convert".to_string(), f.display().to_string(), "-u".into(), "--colors".into(), k.to_string()];
    let r = run_bin("random_graph_gen", &args, None, &[]);
    let key = format!("{TAG} --colors {k} on {:?}", csv);
    ctx.distinct(&(&csv, k, &r.stdout));
    if !r.ok() {
        ctx.violation(key, format!("failed: {} {}", r.describe(), r.err_tail()), convert_case(edges, true, Some(k)));
        return;
    }
    let out = match parse_edges(&r.out(), false, true) {
        Err(e) => {
            ctx.violation(key, e, convert_case(edges, true, Some(k)));
            return;
        }
        Ok(o) => o,
    };
    let mut verts: Vec<String> = vec![];
    for (a, b) in edges {
        for v in [a, b] {
            if !verts.contains(v) {
                verts.push(v.clone());
            }
        }
    }
    let n = verts.len();
    let adj_in = |x: &String, y: &String| edges.iter().any(|(a, b)| (a == x && b == y) || (a == y && b == x));
    let _adj_out = |x: &String, y: &String| out.iter().any(|(a, b)| (a == x && b == y) || (a == y && b == x));
    // exhaustive search over all k^n colourings, pruned as soon as a partial choice is already
    // improper / already not a clique (sound: every extension of such a prefix fails too)
    let adj_in_m: Vec<Vec<bool>> = (0..n).map(|i| (0..n).map(|j| adj_in(&verts[i], &verts[j])).collect()).collect();
    let pick_names: Vec<Vec<String>> = (0..n).map(|i| (0..k).map(|c| format!("{}_c{}", verts[i], c)).collect()).collect();
    let mut out_set: FxHashSet<(&str, &str)> = FxHashSet::default();
    for (a, b) in &out {
        out_set.insert((a.as_str(), b.as_str()));
        out_set.insert((b.as_str(), a.as_str()));
    }
    fn search(i: usize, n: usize, k: usize, col: &mut Vec<usize>, ok: &dyn Fn(usize, usize, usize, usize) -> bool, nodes: &mut u64) -> bool {
        if i == n {
            return true;
        }
        for c in 0..k {
            *nodes += 1;
            if (0..i).all(|j| ok(j, col[j], i, c)) {
                col.push(c);
                let r = search(i + 1, n, k, col, ok, nodes);
                col.pop();
                if r {
                    return true;
                }
            }
        }
        false
    }
    let mut nodes = 0u64;
    let colourable = search(0, n, k, &mut vec![], &|j, cj, i, ci| !adj_in_m[i][j] || cj != ci, &mut nodes);
    let covering_clique = search(0, n, k, &mut vec![], &|j, cj, i, ci| out_set.contains(&(pick_names[j][cj].as_str(), pick_names[i][ci].as_str())), &mut nodes);
    ctx.count("colouring_search_nodes", nodes);
    if colourable != covering_clique {
        ctx.violation(key, format!("the input graph is {}{k}-colourable but the output {} a clique choosing one (vertex, colour) per input vertex", if colourable { "" } else { "not " }, if covering_clique { "has" } else { "has no" }), convert_case(edges, true, Some(k)));
    }
}

fn convert_sweep(ctx: &mut Ctx) {
    let names = ["a", "b", "c"];
    let mut pairs = vec![];
    for a in names {
        for b in names {
            if a != b {
                pairs.push((a.to_string(), b.to_string()));
            }
        }
    }
    let mut idx = 0u64;
    for len in 0..=3 {
        let mut lists = vec![];
        for_each_seq(pairs.len(), len, &mut |_, d| lists.push(d.to_vec()));
        for d in lists {
            let edges: Vec<(String, String)> = d.iter().map(|i| pairs[*i].clone()).collect();
            for u in [false, true] {
                for dot in [false, true] {
                    idx += 1;
                    if ctx.mine(idx) {
                        check_convert(ctx, &edges, u, dot);
                    }
                }
            }
        }
    }
    // self-loops are lines of the list like any other; vertex names that look like keywords of
    // graph file formats
    for (names, loops, maxlen) in [(["a", "b", "c"], true, 2usize), (["graph1", "digraph", "strict_x"], false, 2), (["node", "edge", "subgraph"], true, 2), (["pump;1", "valve", "a b"], false, 2), (["tab\tname", "x", "semi;colon"], false, 1)] {
        let mut ps = vec![];
        for a in names {
            for b in names {
                if loops || a != b {
                    ps.push((a.to_string(), b.to_string()));
                }
            }
        }
        for len in 1..=maxlen {
            let mut lists = vec![];
            for_each_seq(ps.len(), len, &mut |_, d| lists.push(d.to_vec()));
            for d in lists {
                let edges: Vec<(String, String)> = d.iter().map(|i| ps[*i].clone()).collect();
                if !loops && names[0] == "a" {
                    continue;
                }
                for u in [false, true] {
                    for dot in [false, true] {
                        idx += 1;
                        if ctx.mine(idx) {
                            check_convert(ctx, &edges, u, dot);
                        }
                    }
                }
            }
        }
    }
    // colourings: every loop-free undirected graph on <= 4 vertices as an edge list
    // two name families: plain names, and names that are prefixes of one another (the
    // derived names <v>_c<k> then sort differently from the original names)
    for v4 in [["p", "q", "r", "s"], ["v1", "v10", "v1A", "w"], ["a_b", "c", "a", "b_c"]] {
        let mut und = vec![];
        for i in 0..4 {
            for j in (i + 1)..4 {
                und.push((v4[i].to_string(), v4[j].to_string()));
            }
        }
        for mask in 1..(1usize << und.len()) {
            let edges: Vec<(String, String)> = (0..und.len()).filter(|i| mask & (1 << i) != 0).map(|i| if (mask + i) % 2 == 0 { und[i].clone() } else { (und[i].1.clone(), und[i].0.clone()) }).collect();
            for k in 0..=3usize {
                idx += 1;
                if ctx.mine(idx) {
                    check_colors(ctx, &edges, k);
                }
            }
        }
    }
}

/// a list with more than 65 536 distinct vertex names (32 770 lines, no reversed duplicate):
/// `--convert -u` must reproduce it line for line
/// large requests (the random choices are not scripted here — every run must satisfy the
/// invariants whatever they are): V = 1100 / 1500 with sparse and dense edge counts
fn large_requests(ctx: &mut Ctx) {
    for (i, (v, e, u)) in [(1100usize, 5000usize, false), (1500, 20000, false), (1500, 20000, true), (1025, 20000, false), (2000, 10, true)].into_iter().enumerate() {
        if ctx.shard != (6 + i as u64) % ctx.nshards {
            continue;
        }
        let case = json!({"part": "large-request", "v": v, "e": e, "undirected": u});
        ctx.begin_case(|| case.clone());
        ctx.count("evaluations", 1);
        ctx.count("large_requests", 1);
        let mut args = vec![v.to_string(), e.to_string()];
        if u {
            args.push("-u".into());
        }
        let r = run_bin("random_graph_gen", &args, None, &[]);
        let m = if u { v * (v - 1) / 2 } else { v * (v - 1) };
        if let Err(msg) = judge_generated(&r, v, e, u, false, m) {
            ctx.violation(format!("{TAG} random_graph_gen {}", args.join(" ")), msg, case);
        }
    }
}

fn convert_many_vertices(ctx: &mut Ctx) {
    if ctx.shard != 5 % ctx.nshards {
        return;
    }
    let case = json!({"part": "many-vertices"});
    ctx.begin_case(|| case.clone());
    ctx.count("evaluations", 1);
    ctx.count("many_vertex_lists", 1);
    let mut lines: Vec<String> = vec!["c,a0".to_string()];
    lines.extend((0..32768).map(|i| format!("p{i},q{i}")));
    lines.push("a0,p32767".to_string());
    let csv = lines.join("\n") + "\n";
    let f = scratch_file("many.csv", csv.as_bytes());
    let r = run_bin("random_graph_gen", &["--convert".to_string(), f.display().to_string(), "-u".to_string()], None, &[]);
    let key = format!("{TAG} --convert -u of 32 770 lines over 65 538 vertices");
    if !r.ok() {
        ctx.violation(key, format!("failed: {} {}", r.describe(), r.err_tail()), case);
    } else if r.out().lines().map(|l| l.trim().to_string()).filter(|l| !l.is_empty()).collect::<Vec<_>>() != lines {
        let got: Vec<String> = r.out().lines().map(|l| l.trim().to_string()).filter(|l| !l.is_empty()).collect();
        let first = lines.iter().zip(got.iter().chain(std::iter::repeat(&String::new()))).position(|(a, b)| a != b);
        ctx.violation(key, format!("{} lines printed for {} lines given (no line is a reversed duplicate); first difference at line {:?}", got.len(), lines.len(), first.map(|i| i + 1)), case);
    }
}

/// larger inputs for --convert / --colors: five vertices (incl. two-digit names), more
/// colours, longer edge lists
fn convert_sweep_large(ctx: &mut Ctx) {
    let mut idx = 0u64;
    let th = ctx.thorough();
    // second family: names whose concatenations with `_` collide (a_b + c = a + b_c); sparse graphs only
    for (fam, v5) in [["v1", "v10", "v2", "v11", "w"], ["a_b", "c", "a", "b_c", "x"]].into_iter().enumerate() {
    let mut und = vec![];
    for i in 0..5 {
        for j in (i + 1)..5 {
            und.push((v5[i].to_string(), v5[j].to_string()));
        }
    }
    for mask in 1..(1usize << und.len()) {
        // quick: every third graph; thorough: all 1023 (second family: graphs with <= 4 edges)
        if fam == 0 && !th && mask % 3 != 0 || fam == 1 && mask.count_ones() > 4 {
            continue;
        }
        let edges: Vec<(String, String)> = (0..und.len()).filter(|i| mask & (1 << i) != 0).map(|i| if (mask + i) % 3 == 0 { (und[i].1.clone(), und[i].0.clone()) } else { und[i].clone() }).collect();
        for k in [2usize, 3, 4] {
            idx += 1;
            if ctx.mine(idx) {
                check_colors(ctx, &edges, k);
            }
        }
        idx += 1;
        if ctx.mine(idx) {
            // the same lists through --convert (4..10 edges, five vertices)
            check_convert(ctx, &edges, mask % 2 == 0, mask % 4 < 2);
        }
    }
    }
    // eight distinct edges followed by the reverse of each of them in turn (and of all of them)
    {
        let first: Vec<(String, String)> = (0..8usize).map(|i| (format!("n{}", i % 5), format!("n{}", (i % 5 + 1 + i / 5) % 5 + 5 * (i / 7)))).collect();
        let mut uniq: Vec<(String, String)> = vec![];
        for (a, b) in [("p", "q"), ("q", "r"), ("r", "s"), ("s", "t"), ("t", "p"), ("p", "r"), ("q", "s"), ("r", "t"), ("s", "p"), ("t", "q")] {
            uniq.push((a.to_string(), b.to_string()));
        }
        let _ = first;
        for late in 0..uniq.len() {
            for keep in [8usize, 9, 10] {
                let mut edges: Vec<(String, String)> = uniq[..keep].to_vec();
                edges.push((uniq[late % keep].1.clone(), uniq[late % keep].0.clone()));
                for u in [false, true] {
                    idx += 1;
                    if ctx.mine(idx) {
                        check_convert(ctx, &edges, u, late % 2 == 0);
                    }
                }
            }
        }
        let mut edges: Vec<(String, String)> = uniq.clone();
        edges.extend(uniq.iter().rev().map(|(a, b)| (b.clone(), a.clone())));
        idx += 1;
        if ctx.mine(idx) {
            check_convert(ctx, &edges, true, false);
            check_convert(ctx, &edges, false, true);
        }
    }
    // complete graphs K_m against k colours around m (two-digit colour numbers included):
    // K_m is k-colourable iff m <= k
    for (m, k) in [(4usize, 3usize), (4, 4), (5, 4), (6, 6), (9, 9), (10, 9), (10, 10), (11, 10), (11, 11)].into_iter().chain(if ctx.thorough() { vec![(12usize, 11usize), (12, 12)] } else { vec![] }) {
        let edges: Vec<(String, String)> = (0..m).flat_map(|i| ((i + 1)..m).map(move |j| (format!("k{i}"), format!("k{j}")))).collect();
        idx += 1;
        if ctx.mine(idx) {
            check_colors(ctx, &edges, k);
        }
    }
    // many colours on tiny graphs (two-digit colour numbers)
    for es in [vec![("x", "y")], vec![("x", "y"), ("y", "z")], vec![("x", "y"), ("y", "z"), ("z", "x")]] {
        let edges: Vec<(String, String)> = es.iter().map(|(a, b)| (a.to_string(), b.to_string())).collect();
        for k in [5usize, 9, 10, 11, 12] {
            idx += 1;
            if ctx.mine(idx) {
                check_colors(ctx, &edges, k);
            }
        }
    }
    // lists with repeated and reversed edges, length 4..6
    let base = [("a", "b"), ("b", "a"), ("b", "c"), ("a", "b"), ("c", "b"), ("d", "a")];
    for len in 4..=6usize {
        for rot in 0..6usize {
            let edges: Vec<(String, String)> = (0..len).map(|i| base[(i + rot) % 6]).map(|(x, y)| (x.to_string(), y.to_string())).collect();
            for u in [false, true] {
                idx += 1;
                if ctx.mine(idx) {
                    check_convert(ctx, &edges, u, rot % 2 == 0);
                }
            }
        }
    }
}

fn unscripted_supplement(ctx: &mut Ctx) {
    // labelled supplement (sampled with fresh entropy; not part of the exhaustive claim)
    let runs = if ctx.thorough() { 200 } else { 40 };
    for i in 0..runs {
        if !ctx.mine(i as u64) {
            continue;
        }
        let (v, e, u) = [(5usize, 7usize, false), (6, 9, true), (4, 12, false), (5, 10, true)][i % 4];
        let r = run_generate(v, e, u, i % 2 == 0, None);
        ctx.count("supplement_unscripted_runs_sampled", 1);
        let m = if u { v * (v - 1) / 2 } else { v * (v - 1) };
        if let Err(msg) = judge_generated(&r, v, e, u, i % 2 == 0, m) {
            ctx.violation(format!("{TAG} random_graph_gen {v} {e} (fresh entropy)"), msg, json!({"part": "unscripted", "v": v, "e": e, "undirected": u}));
        }
    }
}

fn run(ctx: &mut Ctx) {
    scripted_sweep(ctx, None);
    selection_sweep(ctx);
    output_file_sweep(ctx);
    if ctx.shard == 0 {
        complete_sweep(ctx);
    }
    convert_output_sweep(ctx);
    convert_sweep(ctx);
    convert_sweep_large(ctx);
    convert_many_vertices(ctx);
    large_requests(ctx);
    unscripted_supplement(ctx);
    crate::cli::cleanup_scratch();
}

fn replay(ctx: &mut Ctx, c: &Value) {
    let edges = || -> Vec<(String, String)> { c["edges"].as_array().map(|a| a.iter().map(|e| (e[0].as_str().unwrap_or("").to_string(), e[1].as_str().unwrap_or("").to_string())).collect()).unwrap_or_default() };
    match c["part"].as_str() {
        Some("complete") => complete_sweep(ctx),
        Some("large-request") => {
            let (v, e, u) = (c["v"].as_u64().unwrap_or(2) as usize, c["e"].as_u64().unwrap_or(0) as usize, c["undirected"].as_bool().unwrap_or(false));
            let mut args = vec![v.to_string(), e.to_string()];
            if u {
                args.push("-u".into());
            }
            let r = run_bin("random_graph_gen", &args, None, &[]);
            let m = if u { v * (v - 1) / 2 } else { v * (v - 1) };
            if let Err(msg) = judge_generated(&r, v, e, u, false, m) {
                ctx.violation(format!("{TAG} random_graph_gen {}", args.join(" ")), msg, c.clone());
            }
        }
        Some("many-vertices") => {
            let mut c2 = Ctx::new("C18", ctx.tier, ctx.seed, 5, 16);
            convert_many_vertices(&mut c2);
            for v in c2.violations {
                ctx.violation(v.key, v.what, v.replay);
            }
        }
        Some("convert-outfile") => {
            let mut c2 = Ctx::new("C18", ctx.tier, ctx.seed, 0, 1);
            convert_output_sweep(&mut c2);
            for v in c2.violations {
                if v.replay == *c {
                    ctx.violation(v.key, v.what, v.replay);
                }
            }
        }
        Some("outfile") => {
            let mut c2 = Ctx::new("C18", ctx.tier, ctx.seed, 0, 1);
            output_file_sweep(&mut c2);
            for v in c2.violations {
                if v.replay == *c {
                    ctx.violation(v.key, v.what, v.replay);
                }
            }
        }
        Some("convert") => match c["colors"].as_u64() {
            Some(k) => check_colors(ctx, &edges(), k as usize),
            None => {
                check_convert(ctx, &edges(), c["undirected"].as_bool().unwrap_or(false), false);
                check_convert(ctx, &edges(), c["undirected"].as_bool().unwrap_or(false), true);
            }
        },
        Some("generate") => {
            let script: Vec<u32> = c["script"].as_array().map(|a| a.iter().map(|x| x.as_u64().unwrap_or(0) as u32).collect()).unwrap_or_default();
            let v = c["v"].as_u64().unwrap_or(0) as usize;
            let e = c["e"].as_u64().unwrap_or(0) as usize;
            let u = c["undirected"].as_bool().unwrap_or(false);
            let dot = c["dot"].as_bool().unwrap_or(false);
            let m = if u { v * v.saturating_sub(1) / 2 } else { v * v.saturating_sub(1) };
            if !script.is_empty() && m > 6 {
                let r = run_generate(v, e, u, dot, Some(&script));
                if let Err(msg) = judge_generated(&r, v, e, u, dot, m) {
                    ctx.violation(format!("{TAG} random_graph_gen {v} {e} with random draws {:?}", script), msg, c.clone());
                }
            } else if script.is_empty() && m > 6 {
                let mut c2 = Ctx::new("C18", ctx.tier, ctx.seed, 0, 1);
                selection_sweep(&mut c2);
                for viol in c2.violations {
                    ctx.violation(viol.key, viol.what, viol.replay);
                }
            } else if script.is_empty() && v > 1 {
                // the distinct-output count of a whole group
                let mut c2 = Ctx::new("C18", ctx.tier, ctx.seed, 0, 1);
                scripted_sweep(&mut c2, None);
                for viol in c2.violations {
                    ctx.violation(viol.key, viol.what, viol.replay);
                }
            } else {
                scripted_sweep(ctx, Some((v, e, u, dot, script)));
            }
        }
        _ => {}
    }
    crate::cli::cleanup_scratch();
}
