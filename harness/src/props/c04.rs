//! C04 — quantifiers eliminate exactly the listed variables.

use crate::closure::{check_eval, discover_eval, index_lists, replay_eval, EvOp, Oracle};
use crate::enumerate::{lists_upto, Alpha, Gen};
use crate::refl::{self, depends_tt, exists_tt, forall_tt, Ast, Bin};
use crate::robdd;
use crate::runner::{guarded, Ctx, Engine};
use crate::space::Space;
use crate::textsem::*;
use rsbdd::bdd::BDD;
use serde_json::{json, Value};
use std::rc::Rc;

pub static ENGINE: Engine = Engine {
    prop: "C04",
    level: "exploration",
    rule: "every function f over k ordered variables with gaps (k=3: 256, also as diagrams never interned in the operating environment; k=4: 65536; operands are interned canonical diagrams) x every variable list V of length <= 3 (with repeats) over the support variables plus variables above, between and below the support x {exists, all, exists_impl}: truth table of the result = brute-force quantification; no node of the result tests a member of V; result identical (==) for every reordering / de-duplication of V (compared with the sorted duplicate-free list); V empty or disjoint from the support => result == f; all(V,f) == not(exists(V,not f)). A wide family: and/or chains over 33, 40, 65 and 70 variables under exists/forall of variables around ids 31/32/63/64 against diagrams built in closed form. A 185-member family over 6 variables x every permutation of the six variables and every 4- and 5-subset in three orders. Text level: the language's quantifier node on every function of 2 and 3 named variables x every list <= 3 through the real evaluator; every AST <= N nodes over a quantifier alphabet (lists incl. empty, repeated, trailing comma, any/all spellings, names reused bound and free, quantifiers inside lfp/gfp bodies) through the real parser+evaluator vs the reference. Scoping stratum at text level: every formula with <= 6 (7) nodes over negation, one connective, if-then-else, four quantifier heads (one listing a fixed-point binder) and one fixed point, and its dual, that contains a quantifier. distinct = distinct (f, V, operation) + distinct formula texts",
    assumptions: &["truth tables by an independent walker; reference quantification by cofactor enumeration", "k <= 4 variables, |V| <= 3, AST size bound"],
    max_shards: 64,
    run,
    replay,
};

const TAG: &str = "C04";
type H = Rc<BDD<usize>>;

struct Setup {
    syms: Vec<usize>,
    qvars: Vec<usize>,
}
fn setup(k: usize) -> Setup {
    if k == 3 {
        Setup { syms: vec![2, 4, 6], qvars: vec![0, 2, 4, 5, 6, 9] }
    } else if k == 33 {
        // ids congruent modulo 32 and 64 (k = 33 is only a tag for this 3-variable setup)
        Setup { syms: vec![2, 34, 98], qvars: vec![0, 2, 34, 66, 98, 130] }
    } else {
        Setup { syms: vec![2, 4, 6, 8], qvars: vec![0, 2, 4, 5, 6, 8, 9] }
    }
}

fn case(k: usize, tt: u64, vs: &[usize], foreign: bool) -> Value {
    json!({"part": "api", "k": k, "f": tt, "vars": vs, "foreign": foreign})
}

fn check_one(ctx: &mut Ctx, sp: &Space<usize>, sid: usize, tt: u64, vs: &[usize], foreign: bool) {
    let k = sp.k;
    ctx.begin_case(|| case(sid, tt, vs, foreign));
    ctx.count("evaluations", 1);
    let key = || format!("{TAG} api syms={:?}{}: f={tt:#x} V={:?}", sp.syms, if foreign { " (operand not interned)" } else { "" }, vs);
    let f = sp.get(tt);
    let env = sp.env.clone();
    let mut want_e = tt;
    let mut want_a = tt;
    for v in vs {
        if let Some(i) = sp.pos(v) {
            want_e = exists_tt(k, i, want_e);
            want_a = forall_tt(k, i, want_a);
        }
    }
    let mut sorted: Vec<usize> = vs.to_vec();
    sorted.sort_unstable();
    sorted.dedup();
    let r = guarded(|| {
        let e = env.exists(vs.to_vec(), f.clone());
        let a = env.all(vs.to_vec(), f.clone());
        let e_sorted = env.exists(sorted.clone(), f.clone());
        let a_sorted = env.all(sorted.clone(), f.clone());
        let dual = env.not(env.exists(vs.to_vec(), env.not(f.clone())));
        let single = if vs.len() == 1 { Some(env.exists_impl(&vs[0], f.clone())) } else { None };
        (e, a, e_sorted, a_sorted, dual, single)
    });
    let (e, a, es, as_, dual, single) = match r {
        Err(p) => {
            ctx.violation(key(), format!("quantification panicked: {p}"), case(sid, tt, vs, foreign));
            return;
        }
        Ok(x) => x,
    };
    let mut c: Vec<String> = vec![];
    let mut judge = |name: &str, h: &H, want: u64, c: &mut Vec<String>| {
        match sp.tt(h) {
            Err(m) => c.push(format!("{name}: {m}")),
            Ok(t) if t != want => c.push(format!("{name} denotes {t:#x}, brute-force quantification gives {want:#x}")),
            Ok(_) => {}
        }
        let mut ls = vec![];
        robdd::labels(h, &mut ls);
        if let Some(l) = ls.iter().find(|l| vs.contains(l)) {
            c.push(format!("{name} still tests the quantified variable {l}"));
        }
    };
    judge("exists", &e, want_e, &mut c);
    judge("all", &a, want_a, &mut c);
    if let Some(s) = &single {
        judge("exists_impl", s, want_e, &mut c);
    }
    if *e != *es {
        c.push("exists depends on the order or repetition of the variables in the list".into());
    }
    if *a != *as_ {
        c.push("all depends on the order or repetition of the variables in the list".into());
    }
    if *a != *dual {
        c.push("all(V,f) differs from not(exists(V, not f))".into());
    }
    let touches = vs.iter().any(|v| sp.pos(v).map(|i| depends_tt(k, i, tt)).unwrap_or(false));
    if !touches && (*e != *f || *a != *f) {
        c.push("V is empty or disjoint from the variables f depends on, but the result is not f".into());
    }
    if !c.is_empty() {
        ctx.violation(key(), c.join("; "), case(sid, tt, vs, foreign));
    }
    ctx.count("distinct_by_construction", 1);
    ctx.sample(|| json!({"f": robdd::show(&f), "V": vs, "exists": robdd::show(&e), "all": robdd::show(&a)}));
}

fn api_sweep(ctx: &mut Ctx, sid: usize, maxlen: usize, foreign: bool) {
    let st = setup(sid);
    let sp = if foreign {
        Space::<usize>::by_foreign(&st.syms)
    } else {
        match Space::<usize>::by_interning(&st.syms) {
            Ok(s) => s,
            Err(e) => {
                ctx.violation(format!("{TAG} building operands"), e, case(sid, 0, &[], false));
                return;
            }
        }
    };
    let lists: Vec<Vec<usize>> = lists_upto(st.qvars.len(), maxlen).into_iter().map(|l| l.into_iter().map(|i| st.qvars[i]).collect()).collect();
    let mut idx = 0u64;
    for tt in 0..sp.nfun() as u64 {
        for vs in &lists {
            idx += 1;
            if ctx.mine(idx) {
                check_one(ctx, &sp, sid, tt, vs, foreign);
            }
        }
    }
}


/// longer lists and deeper diagrams than the complete sweeps reach: the 185-member family
/// over 6 variables x every permutation of all six variables, and every 5- and 4-subset in
/// ascending, descending and rotated order
fn long_lists(ctx: &mut Ctx) {
    let syms = [1usize, 4, 6, 9, 12, 20];
    let sp = Space::<usize>::empty(&syms);
    let fam = crate::closure::family6();
    let hs: Vec<H> = fam.iter().map(|t| sp.intern(&sp.canon(*t))).collect();
    let mut lists: Vec<Vec<usize>> = crate::enumerate::permutations(6);
    for mask in 0..64usize {
        let sub: Vec<usize> = (0..6).filter(|i| mask & (1 << i) != 0).collect();
        if sub.len() == 5 || sub.len() == 4 {
            let mut d = sub.clone();
            d.reverse();
            let mut r = sub.clone();
            r.rotate_left(2);
            lists.push(sub);
            lists.push(d);
            lists.push(r);
        }
    }
    let env = sp.env.clone();
    let mut idx = 0u64;
    for (fi, f) in hs.iter().enumerate() {
        for l in &lists {
            idx += 1;
            if !ctx.mine(idx) {
                continue;
            }
            let vs: Vec<usize> = l.iter().map(|i| syms[*i]).collect();
            let c = json!({"part": "long", "f": fi, "vars": vs});
            ctx.begin_case(|| c.clone());
            ctx.count("evaluations", 1);
            ctx.count("long_list_cases", 1);
            ctx.count("distinct_by_construction", 1);
            let mut we = fam[fi];
            let mut wa = fam[fi];
            for i in l {
                we = exists_tt(6, *i, we);
                wa = forall_tt(6, *i, wa);
            }
            let key = format!("{TAG} api 6 variables: f={:#x} V={:?}", fam[fi], vs);
            match guarded(|| (env.exists(vs.clone(), f.clone()), env.all(vs.clone(), f.clone()))) {
                Err(p) => ctx.violation(key, format!("quantification panicked: {p}"), c),
                Ok((e, a)) => {
                    let mut cs = vec![];
                    for (name, h, w) in [("exists", &e, we), ("all", &a, wa)] {
                        match sp.tt(h) {
                            Err(m) => cs.push(m),
                            Ok(t) if t != w => cs.push(format!("{name} denotes {t:#x}, brute-force quantification gives {w:#x}")),
                            _ => {}
                        }
                    }
                    if !cs.is_empty() {
                        ctx.violation(key, cs.join("; "), c);
                    }
                }
            }
        }
    }
}

fn quant_alpha() -> Alpha {
    let s = |x: &str| x.to_string();
    let mut quants = vec![];
    for ex in [true, false] {
        for l in [vec![], vec![s("a")], vec![s("b")], vec![s("a"), s("b")], vec![s("b"), s("a")], vec![s("a"), s("a")], vec![s("c"), s("a"), s("b")], vec![s("d")]] {
            quants.push((ex, l));
        }
    }
    // fixed points: a quantified variable may reach the quantifier's body only through the iterate
    Alpha { leaves: vec![Ast::var("a"), Ast::var("b"), Ast::var("c"), Ast::True, Ast::var("X")], not: true, bins: crate::refl::ALL_BINS.to_vec(), ite: false, quants, fps: vec![(s("X"), false), (s("X"), true)], ..Default::default() }
}

fn text_sweep(ctx: &mut Ctx) {
    let upto = if ctx.thorough() { 5 } else { 4 };
    text_sweep_on(ctx, quant_alpha(), upto, 0);
    // quantifiers around if-then-else, negated quantifiers, lists that name a fixed-point binder
    let deep = if ctx.thorough() { 7 } else { 6 };
    text_sweep_on(ctx, crate::props::c01::scoping_core(false), deep, 1 << 40);
    text_sweep_on(ctx, crate::props::c01::scoping_core(true), deep, 2 << 40);
}

fn text_sweep_on(ctx: &mut Ctx, alpha: Alpha, upto: usize, base: u64) {
    let mut g = Gen::new(alpha);
    let mut idx = base;
    for size in 1..=upto {
        let mut todo = vec![];
        g.stream(size, &mut |a| {
            idx += 1;
            if ctx.mine(idx) {
                todo.push((a, idx));
            }
        });
        for (a, i) in todo {
            fn has_q(a: &Ast) -> bool {
                match a {
                    Ast::Q(..) => true,
                    Ast::Not(x) | Ast::Fp(_, _, x) => has_q(x),
                    Ast::Bin(_, l, r) => has_q(l) || has_q(r),
                    Ast::Ite(c, t, e) => has_q(c) || has_q(t) || has_q(e),
                    _ => false,
                }
            }
            if !has_q(&a) {
                continue;
            }
            for text in if size >= 6 { vec![refl::pp(&a, refl::MINIMAL)] } else { renderings(&a, i, size <= 2) } {
                if refl::parse(&text).as_ref() != Ok(&a) {
                    panic!("machinery: round trip failed for {text}");
                }
                if check_text(ctx, TAG, &a, &text).is_some() {
                    ctx.distinct(&text);
                    ctx.count("quantifier_texts", 1);
                }
            }
        }
    }
}

const EV_ORACLE: Oracle = Oracle { semantic: true, canonical: false };

/// the language's quantifier node on every function of 2 and 3 named variables x every
/// variable list <= 3 (incl. one variable outside every support), through the real evaluator
fn evaluator_sweep(ctx: &mut Ctx) {
    let mut idx = 0u64;
    for k in [2usize, 3] {
        let mut es = discover_eval(ctx, k, EV_ORACLE, TAG);
        let present: Vec<u64> = (0..es.sp.nfun() as u64).filter(|t| es.sp.has(*t)).collect();
        for vs in index_lists(es.qpool.len(), 3) {
            for ex in [true, false] {
                let op = EvOp::Quant(ex, vs.clone());
                for &a in &present {
                    idx += 1;
                    if ctx.mine(idx) {
                        check_eval(ctx, &mut es, &op, &[a], EV_ORACLE, TAG);
                        ctx.count("evaluations", 1);
                    }
                }
            }
        }
    }
}

/// (1) every pair of variable ids i, j < 140: exists / all over [i] of x_i & x_j, x_i | x_j and
/// x_i ^ x_j (the unlisted variable must survive, whatever the two ids are); (2) a crowded
/// environment: 300 000 unrelated variable nodes are interned first, then every function of
/// three variables is quantified over every list of <= 2 variables and compared with the
/// result in an empty environment.
fn id_pairs_and_crowded(ctx: &mut Ctx) {
    use rsbdd::bdd::{BDDEnv, BDD};
    let case_p = |i: usize, j: usize| json!({"part": "id-pairs", "i": i, "j": j});
    for i in 0..140usize {
        if !ctx.mine(i as u64) {
            continue;
        }
        let env = BDDEnv::<usize>::new();
        for j in 0..140usize {
            if i == j {
                continue;
            }
            ctx.begin_case(|| case_p(i, j));
            ctx.count("id_pair_cases", 1);
            ctx.count("distinct_by_construction", 1);
            let r = guarded(|| {
                let (xi, xj) = (env.var(i), env.var(j));
                let mut bad: Vec<String> = vec![];
                let t = env.mk_const(true);
                let f = env.mk_const(false);
                // (operand, exists-result, forall-result)
                let cases = [(env.and(xi.clone(), xj.clone()), xj.clone(), f.clone()), (env.or(xi.clone(), xj.clone()), t.clone(), xj.clone()), (env.xor(xi.clone(), xj.clone()), t.clone(), f.clone())];
                for (k, (op, ex, all)) in cases.iter().enumerate() {
                    if *env.exists(vec![i], op.clone()) != **ex {
                        bad.push(format!("exists([{i}], x{i} {} x{j}) is wrong", ["&", "|", "^"][k]));
                    }
                    if *env.all(vec![i], op.clone()) != **all {
                        bad.push(format!("all([{i}], x{i} {} x{j}) is wrong", ["&", "|", "^"][k]));
                    }
                }
                bad
            });
            match r {
                Err(p) => ctx.violation(format!("{TAG} ids {i}, {j}"), format!("panicked: {p}"), case_p(i, j)),
                Ok(b) if !b.is_empty() => ctx.violation(format!("{TAG} ids {i}, {j}"), b.join("; "), case_p(i, j)),
                _ => {}
            }
        }
    }
    // crowded environment (one shard)
    if ctx.shard == 2 % ctx.nshards {
        let case = json!({"part": "crowded"});
        ctx.begin_case(|| case.clone());
        ctx.count("crowded_environment_runs", 1);
        let r = guarded(|| -> Option<String> {
            let crowded = BDDEnv::<usize>::new();
            let keep: Vec<Rc<BDD<usize>>> = (0..300_000usize).map(|k| crowded.var(1000 + k)).collect();
            let fresh = BDDEnv::<usize>::new();
            let build = |e: &BDDEnv<usize>, tt: u64| -> Rc<BDD<usize>> {
                // Shannon over variables 0, 1, 2 by ite
                fn go(e: &BDDEnv<usize>, tt: u64, level: usize, fixed: usize) -> Rc<BDD<usize>> {
                    if level == 3 {
                        return e.mk_const((tt >> fixed) & 1 == 1);
                    }
                    let t = go(e, tt, level + 1, fixed | (1 << level));
                    let f = go(e, tt, level + 1, fixed);
                    e.ite(e.var(level), t, f)
                }
                go(e, tt, 0, 0)
            };
            for tt in 0..256u64 {
                let (a, b) = (build(&crowded, tt), build(&fresh, tt));
                for list in [vec![0usize], vec![1], vec![2], vec![0, 1], vec![1, 2], vec![2, 0], vec![0, 2], vec![1, 1], vec![0, 1, 2]] {
                    if *crowded.exists(list.clone(), a.clone()) != *fresh.exists(list.clone(), b.clone()) {
                        return Some(format!("exists({list:?}, f={tt:#x}) differs between an environment with {} other nodes and an empty one", keep.len()));
                    }
                    if *crowded.all(list.clone(), a.clone()) != *fresh.all(list.clone(), b.clone()) {
                        return Some(format!("all({list:?}, f={tt:#x}) differs between an environment with {} other nodes and an empty one", keep.len()));
                    }
                }
            }
            None
        });
        match r {
            Err(p) => ctx.violation(format!("{TAG} crowded environment"), format!("panicked: {p}"), case),
            Ok(Some(m)) => ctx.violation(format!("{TAG} crowded environment"), m, case),
            Ok(None) => ctx.count("transitions", 256 * 18),
        }
    }
}

fn run(ctx: &mut Ctx) {
    id_pairs_and_crowded(ctx);
    evaluator_sweep(ctx);
    long_lists(ctx);
    wide_family(ctx, TAG);
    api_sweep(ctx, 3, 3, false);
    api_sweep(ctx, 3, 3, true);
    api_sweep(ctx, 33, 3, false);
    // quick: F_4 with lists <= 2; thorough: lists <= 3
    api_sweep(ctx, 4, if ctx.thorough() { 3 } else { 2 }, false);
    text_sweep(ctx);
}

fn replay(ctx: &mut Ctx, c: &Value) {
    if c["part"].as_str() == Some("text") {
        replay_text(ctx, TAG, c);
        return;
    }
    if c["part"].as_str() == Some("id-pairs") || c["part"].as_str() == Some("crowded") {
        let mut c2 = Ctx::new("C04", ctx.tier, ctx.seed, if c["part"].as_str() == Some("crowded") { 2 } else { c["i"].as_u64().unwrap_or(0) % 256 }, 256);
        if c["part"].as_str() == Some("crowded") {
            c2 = Ctx::new("C04", ctx.tier, ctx.seed, 0, 1);
        }
        id_pairs_and_crowded(&mut c2);
        for v in c2.violations {
            if v.replay == *c {
                ctx.violation(v.key, v.what, v.replay);
            }
        }
        return;
    }
    if c["part"].as_str() == Some("wide") {
        let mut c2 = Ctx::new("C04", ctx.tier, ctx.seed, 0, 1);
        wide_family(&mut c2, TAG);
        for v in c2.violations {
            if v.replay == *c {
                ctx.violation(v.key, v.what, v.replay);
            }
        }
        return;
    }
    if c["part"].as_str() == Some("long") {
        let mut c2 = Ctx::new("C04", ctx.tier, ctx.seed, 0, 1);
        long_lists(&mut c2);
        for v in c2.violations {
            if v.replay == *c {
                ctx.violation(v.key, v.what, v.replay);
            }
        }
        return;
    }
    if matches!(c["part"].as_str(), Some("eval-node") | Some("eval-init")) {
        replay_eval(ctx, c, EV_ORACLE, TAG);
        return;
    }
    let k = c["k"].as_u64().unwrap_or(3) as usize;
    let st = setup(k);
    let vs: Vec<usize> = c["vars"].as_array().map(|a| a.iter().map(|x| x.as_u64().unwrap_or(0) as usize).collect()).unwrap_or_default();
    let foreign = c["foreign"].as_bool().unwrap_or(false);
    if foreign {
        check_one(ctx, &Space::<usize>::by_foreign(&st.syms), k, c["f"].as_u64().unwrap_or(0), &vs, true);
        return;
    }
    match Space::<usize>::by_interning(&st.syms) {
        Ok(sp) => check_one(ctx, &sp, k, c["f"].as_u64().unwrap_or(0), &vs, false),
        Err(e) => ctx.violation(format!("{TAG} building operands"), e, c.clone()),
    }
}
