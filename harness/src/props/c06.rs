//! C06 — lfp / gfp denote the least / greatest fixed point of a monotone transformer.

use crate::conv::*;
use crate::enumerate::{Alpha, Gen};
use crate::refl::{self, Ast, Bin, Cmp, Sem};
use crate::runner::{guarded, Ctx, Engine};
use rsbdd::bdd::{BDDEnv, BDD};
use serde_json::{json, Value};
use std::cell::Cell;
use std::collections::BTreeMap;
use std::rc::Rc;

pub static ENGINE: Engine = Engine {
    prop: "C06",
    level: "exploration",
    rule: "every body T with <= N AST nodes over {X, Y, a, b, true, false, not, & | => <=>, if, exists/forall a|b, shadowing binders exists X / lfp X / gfp X, further binders lfp/gfp Y and Z (three distinct nested binders), counting >=1 <=1 =1}: the reference evaluates T on ALL points of the lattice of functions over the formula's free variables (16, or 256 with a third variable), decides monotonicity by brute force over all comparable pairs and computes all fixed, pre-fixed and post-fixed points; for monotone bodies the real `lfp X # T` / `mu` / `gfp` / `nu` must terminate within the fuel, be a fixed point, lie below every pre-fixed point (lfp) / above every post-fixed point (gfp) and equal the reference iteration. BDDEnv::fp: all 256 maps t on D={F,T,a,-a} x 4 starts with a call-counting closure: first element of the orbit fixed by t, exactly index+1 calls; cyclic orbits exhaust the fuel; strictly increasing chains of every length 1..65 over six variables need exactly that many applications. Many-round fixed points: k-bit counter reachability (2k+1 names, 2^k rounds, k = 1..6) and its gfp dual against a bit-vector reference. Nested alternation: every nest of depth 2..3 (4) over binders X, Y, Z, W with every combination of lfp/gfp kinds and of four monotone templates per level, the innermost level referring to each outer binder in turn, plus sibling nests (two inner fixed points under one connective), against the reference semantics. distinct = distinct (body, binder spelling) texts + distinct (map, start)",
    assumptions: &["reference transformer semantics in harness/src/refl.rs; bodies whose nested fixed points diverge in the reference are out of scope (counted)", "fuel 20000 iterations where the lattice height is <= 9"],
    max_shards: 64,
    run,
    replay,
};

const TAG: &str = "C06";

fn body_alpha(third: bool) -> Alpha {
    let s = |x: &str| x.to_string();
    let mut leaves = vec![Ast::var("X"), Ast::var("a"), Ast::var("b"), Ast::True, Ast::False, Ast::var("Y"), Ast::var("Z")];
    if third {
        leaves.push(Ast::var("c"));
    }
    Alpha {
        leaves,
        not: true,
        bins: vec![Bin::And, Bin::Or, Bin::Implies, Bin::Iff],
        ite: true,
        // binder lists that re-bind the fixed-point name among other names, in several orders
        quants: vec![
            (true, vec![s("a")]),
            (false, vec![s("a")]),
            (true, vec![s("b")]),
            (true, vec![s("X")]),
            (false, vec![s("a"), s("b")]),
            (true, vec![s("a"), s("X")]),
            (false, vec![s("X"), s("b")]),
            (true, vec![s("b"), s("a"), s("X")]),
            (false, vec![s("a"), s("X"), s("b")]),
        ],
        // three distinct binder names: the top-level X, and Y, Z (so that an innermost fixed
        // point can mention the middle binder but not the outermost one)
        fps: vec![(s("X"), false), (s("X"), true), (s("Y"), false), (s("Y"), true), (s("Z"), false), (s("Z"), true)],
        cmps: vec![Cmp::AtLeast, Cmp::AtMost, Cmp::Exactly],
        nums: vec![s("1")],
        cv: false,
        max_list: 2,
    }
}

/// all lattice points: truth tables over `names` that depend only on the variables in `fv`
fn lattice(names: &[String], fv: &[String]) -> Vec<u64> {
    let k = names.len();
    let pos: Vec<usize> = fv.iter().map(|v| names.iter().position(|n| n == v).expect("fv in names")).collect();
    let m = pos.len();
    let mut out = vec![];
    for f in 0..(1u64 << (1usize << m)) {
        let mut t = 0u64;
        for a in 0..(1usize << k) {
            let mut idx = 0usize;
            for (j, p) in pos.iter().enumerate() {
                if (a >> p) & 1 == 1 {
                    idx |= 1 << j;
                }
            }
            if (f >> idx) & 1 == 1 {
                t |= 1 << a;
            }
        }
        out.push(t);
    }
    out
}

struct Analysis {
    names: Vec<String>,
    /// T on every lattice point
    graph: Vec<(u64, u64)>,
    monotone: bool,
}

fn analyse(body: &Ast) -> Option<Analysis> {
    let whole = Ast::fp("X", false, body.clone());
    let names = whole.names();
    if names.len() > 6 {
        return None;
    }
    let fv = whole.free_names();
    if fv.len() > 3 {
        return None;
    }
    let sem = Sem::new(&names);
    let lat = lattice(&names, &fv);
    let mut graph = Vec::with_capacity(lat.len());
    for &r in &lat {
        let mut rho = BTreeMap::new();
        rho.insert("X".to_string(), r);
        let t = sem.eval(body, &rho)?;
        graph.push((r, t));
    }
    let mut monotone = true;
    'outer: for &(r, tr) in &graph {
        for &(s, ts) in &graph {
            if r & !s == 0 && tr & !ts != 0 {
                monotone = false;
                break 'outer;
            }
        }
    }
    Some(Analysis { names, graph, monotone })
}

fn case(text: &str) -> Value {
    json!({"part": "text", "text": text})
}

fn check_fixpoint_text(ctx: &mut Ctx, body: &Ast, an: &Analysis, gfp: bool, spelling: &str) {
    let text = format!("{spelling} X # {}", refl::pp(body, refl::MINIMAL));
    ctx.begin_case(|| case(&text));
    ctx.count("evaluations", 1);
    let key = || format!("{TAG} text: {text}");
    let whole = Ast::fp("X", gfp, body.clone());
    if refl::parse(&text).as_ref() != Ok(&whole) {
        panic!("machinery: round trip failed for {text}");
    }
    let p = match impl_parse(&text) {
        ImplParse::Ok(p) => p,
        ImplParse::Err(e) => {
            ctx.violation(key(), format!("well-formed fixed-point formula rejected: {e}"), case(&text));
            return;
        }
        ImplParse::Panic(m) => {
            ctx.violation(key(), format!("parser panicked: {m}"), case(&text));
            return;
        }
    };
    if conv(&p.bdd).as_ref() != Some(&whole) {
        ctx.violation(key(), format!("text was not read as the tree the grammar assigns: {:?}", conv(&p.bdd)), case(&text));
        return;
    }
    let res = match impl_eval(&p) {
        Err(m) if m.contains(rsbdd::verif_hooks::FUEL_EXHAUSTED_MARKER) => {
            ctx.violation(key(), format!("evaluation of a fixed point of a monotone body did not terminate within {DEFAULT_FUEL} iterations"), case(&text));
            return;
        }
        Err(m) => {
            ctx.violation(key(), format!("evaluation panicked: {m}"), case(&text));
            return;
        }
        Ok(r) => r,
    };
    let r = match tt_named(&res, &an.names) {
        Ok(t) => t,
        Err(e) => {
            ctx.violation(key(), e, case(&text));
            return;
        }
    };
    let mut c = vec![];
    match an.graph.iter().find(|(x, _)| *x == r) {
        None => c.push(format!("result {r:#x} depends on a variable that is not free in the formula")),
        Some((_, tr)) => {
            if *tr != r {
                c.push(format!("result {r:#x} is not a fixed point: T(result) = {tr:#x}"));
            }
        }
    }
    for &(q, tq) in &an.graph {
        if !gfp && tq & !q == 0 && r & !q != 0 {
            c.push(format!("result {r:#x} is not below the pre-fixed point {q:#x} (T({q:#x}) = {tq:#x}): not the LEAST fixed point"));
            break;
        }
        if gfp && q & !tq == 0 && q & !r != 0 {
            c.push(format!("result {r:#x} is not above the post-fixed point {q:#x} (T({q:#x}) = {tq:#x}): not the GREATEST fixed point"));
            break;
        }
    }
    // the reference iteration (monotone => converges) must give the same function
    let sem = Sem::new(&an.names);
    if let Some(w) = sem.eval_closed(&whole) {
        if w != r {
            c.push(format!("result {r:#x} differs from the iteration from {} which gives {w:#x}", if gfp { "true" } else { "false" }));
        }
    }
    if !c.is_empty() {
        ctx.violation(key(), format!("{} (variables {:?})", c.join("; "), an.names), case(&text));
    } else {
        ctx.count("fixed_points_confirmed", 1);
        ctx.distinct(&text);
        let nfix = an.graph.iter().filter(|(x, t)| x == t).count();
        if nfix > 1 {
            ctx.count("bodies_with_competing_fixed_points", 1);
        }
        ctx.sample(|| json!({"text": text, "result": format!("{r:#x}"), "fixed_points_of_body": nfix, "lattice": an.graph.len()}));
    }
}

/// list-versus-list comparisons: the iterate must be substituted in BOTH lists
fn cv_alpha() -> Alpha {
    let s = |x: &str| x.to_string();
    Alpha {
        leaves: vec![Ast::var("X"), Ast::var("a"), Ast::var("b"), Ast::True],
        not: true,
        bins: vec![Bin::And, Bin::Or],
        ite: false,
        quants: vec![(true, vec![s("a")])],
        fps: vec![],
        cmps: vec![Cmp::AtMost, Cmp::AtLeast, Cmp::LessThan],
        nums: vec![],
        cv: true,
        max_list: 3,
    }
}

fn body_sweep(ctx: &mut Ctx, third: bool, upto: usize, idx: &mut u64) {
    body_sweep_alpha(ctx, body_alpha(third), upto, idx)
}

fn body_sweep_alpha(ctx: &mut Ctx, alpha: Alpha, upto: usize, idx: &mut u64) {
    let mut g = Gen::new(alpha);
    for size in 1..=upto {
        let mut todo = vec![];
        let flush = |ctx: &mut Ctx, todo: &mut Vec<(Ast, u64)>| {
            for (b, i) in todo.drain(..) {
                ctx.count("bodies", 1);
                let Some(an) = analyse(&b) else {
                    ctx.count("bodies_out_of_scope", 1);
                    continue;
                };
                if !an.monotone {
                    ctx.count("bodies_not_monotone_skipped", 1);
                    continue;
                }
                ctx.count("bodies_monotone", 1);
                // all four spellings for small bodies, alternating for the largest size
                let sp: Vec<(bool, &str)> = if size < upto || upto <= 3 { vec![(false, "lfp"), (false, "mu"), (true, "gfp"), (true, "nu")] } else if i % 2 == 0 { vec![(false, "lfp"), (true, "nu")] } else { vec![(false, "mu"), (true, "gfp")] };
                for (g, s) in sp {
                    check_fixpoint_text(ctx, &b, &an, g, s);
                }
            }
        };
        g.stream(size, &mut |a| {
            *idx += 1;
            if ctx.mine(*idx) {
                todo.push((a, *idx));
            }
            if todo.len() > 2048 {
                flush(ctx, &mut todo);
            }
        });
        flush(ctx, &mut todo);
    }
}

// ---------------------------------------------------------------------------------------
// BDDEnv::fp(a, t)

fn check_fp_api(ctx: &mut Ctx, map: usize, start: usize) {
    check_fp_api_mode(ctx, map, start, false);
    // the transformer hands back an equal diagram in a FRESH allocation on every call (as one
    // that converts from another symbol type or another environment does): equality of
    // successive iterates is structural
    check_fp_api_mode(ctx, map, start, true);
}

fn check_fp_api_mode(ctx: &mut Ctx, map: usize, start: usize, fresh: bool) {
    let c = json!({"part": "fp", "map": map, "start": start, "fresh_allocations": fresh});
    ctx.begin_case(|| c.clone());
    ctx.count("evaluations", 1);
    let env = BDDEnv::<usize>::new();
    let v = env.var(3);
    let d: Vec<Rc<BDD<usize>>> = vec![env.mk_const(false), env.mk_const(true), v.clone(), env.not(v)];
    let m: Vec<usize> = (0..4).map(|i| (map >> (2 * i)) & 3).collect();
    // expected: first element of the orbit that t maps to itself
    let mut orbit = vec![start];
    let mut expect: Option<(usize, u64)> = None;
    loop {
        let cur = *orbit.last().expect("orbit");
        if m[cur] == cur {
            expect = Some((cur, orbit.len() as u64));
            break;
        }
        if orbit.contains(&m[cur]) {
            break; // proper cycle: no fixed element on the orbit
        }
        orbit.push(m[cur]);
    }
    let calls = Cell::new(0u64);
    let t = |x: Rc<BDD<usize>>| {
        calls.set(calls.get() + 1);
        let i = d.iter().position(|e| **e == *x).expect("machinery: fp handed the transformer a diagram outside D");
        if fresh {
            crate::robdd::deep_copy(&d[m[i]])
        } else {
            d[m[i]].clone()
        }
    };
    rsbdd::verif_hooks::set_fp_fuel(Some(64));
    let r = guarded(|| env.fp(d[start].clone(), t));
    rsbdd::verif_hooks::set_fp_fuel(None);
    let key = format!("{TAG} fp: t={:?} on D=[F,T,v,-v], start {start}{}", m, if fresh { ", transformer returns fresh allocations" } else { "" });
    match (expect, r) {
        (Some((e, n)), Ok(res)) => {
            if *res != *d[e] {
                ctx.violation(key, format!("fp returned {} but the first element of the orbit fixed by t is D[{e}]", crate::robdd::show(&res)), c);
            } else if calls.get() != n {
                ctx.violation(key, format!("fp called the transformer {} times; reaching the first fixed element of the orbit takes exactly {n} applications", calls.get()), c);
            } else {
                ctx.count("fp_orbits_with_fixed_element", 1);
                ctx.distinct(&(map, start, fresh));
            }
        }
        (Some(_), Err(p)) => ctx.violation(key, format!("fp did not return although the orbit contains a fixed element: {p}"), c),
        (None, Err(p)) if p.contains(rsbdd::verif_hooks::FUEL_EXHAUSTED_MARKER) => {
            ctx.count("fp_cyclic_orbits_exhaust_fuel", 1);
            ctx.distinct(&(map, start, fresh));
        }
        (None, Err(p)) => ctx.violation(key, format!("fp panicked: {p}"), c),
        (None, Ok(res)) => ctx.violation(key, format!("fp returned {} although no element of the orbit is fixed by t", crate::robdd::show(&res)), c),
    }
}


/// long orbits: a strictly increasing chain D_0 < D_1 < .. < D_(n-1) of functions of six
/// variables with t(D_i) = D_(i+1) and t(D_(n-1)) = D_(n-1): fp must return the top after
/// exactly n applications, for every chain length up to 65
fn check_fp_chain(ctx: &mut Ctx, n: usize) {
    let c = json!({"part": "fp-chain", "n": n});
    ctx.begin_case(|| c.clone());
    ctx.count("evaluations", 1);
    let syms = [0usize, 3, 4, 9, 10, 12];
    let sp = crate::space::Space::<usize>::empty(&syms);
    // D_i = the first i assignments (D_0 = false, D_64 = true)
    let chain: Vec<Rc<BDD<usize>>> = (0..n).map(|i| sp.intern(&sp.canon(if i >= 64 { !0u64 } else { (1u64 << i) - 1 }))).collect();
    let calls = Cell::new(0u64);
    let t = |x: Rc<BDD<usize>>| {
        calls.set(calls.get() + 1);
        let i = chain.iter().position(|e| **e == *x).expect("machinery: fp handed the transformer a diagram outside the chain");
        chain[(i + 1).min(n - 1)].clone()
    };
    rsbdd::verif_hooks::set_fp_fuel(Some(1000));
    let r = guarded(|| sp.env.fp(chain[0].clone(), t));
    rsbdd::verif_hooks::set_fp_fuel(None);
    let key = format!("{TAG} fp: strictly increasing chain of {n} diagrams");
    match r {
        Err(p) => ctx.violation(key, format!("fp did not return: {p}"), c),
        Ok(res) => {
            if *res != *chain[n - 1] {
                ctx.violation(key, format!("fp stopped at an element that the transformer does not map to itself (reached index {:?} of {})", chain.iter().position(|e| **e == *res), n - 1), c);
            } else if calls.get() != n as u64 {
                ctx.violation(key, format!("fp applied the transformer {} times, the chain needs exactly {n}", calls.get()), c);
            } else {
                ctx.count("fp_chains_confirmed", 1);
                ctx.distinct(&("chain", n));
            }
        }
    }
}

/// language level: least fixed points that need 2^k rounds (k-bit counter reachability,
/// 2k+1 names) and their greatest-fixed-point duals
fn check_many_rounds(ctx: &mut Ctx, k: usize, dual: bool) {
    let lfp = crate::textsem::counter_reachability(k);
    let a = if dual {
        // gfp dual: nu Z # -(body[Z := -Z])  ==  -(mu Z # body)
        match &lfp {
            Ast::Fp(z, _, body) => {
                fn neg_z(a: &Ast, z: &str) -> Ast {
                    match a {
                        Ast::Var(v) if v == z => Ast::not(Ast::var(z)),
                        Ast::Not(x) => Ast::not(neg_z(x, z)),
                        Ast::Bin(o, l, r) => Ast::bin(*o, neg_z(l, z), neg_z(r, z)),
                        Ast::Q(e, vs, b) => Ast::Q(*e, vs.clone(), Box::new(neg_z(b, z))),
                        o => o.clone(),
                    }
                }
                Ast::fp(z, true, Ast::not(neg_z(body, z)))
            }
            _ => unreachable!(),
        }
    } else {
        lfp
    };
    let text = refl::pp(&a, refl::MINIMAL);
    if refl::parse(&text).as_ref() != Ok(&a) {
        panic!("machinery: round trip failed for {text}");
    }
    ctx.count("many_round_fixed_points", 1);
    if crate::textsem::check_text_big(ctx, TAG, &a, &text) {
        ctx.distinct(&text);
    }
}

/// Nested fixed points of alternating kinds. A nest of depth d has binders X, Y, Z, W; level i is
/// `kind_i V_i # T_i(V_i, A_i, next)` with one of four monotone templates, literal A_i from a
/// fixed cycle (a, b, -a, c) and `next` = the next level or — at the innermost level — one of the
/// OUTER binders or a literal; and, at depth 3, a sibling form in which level 2 has TWO inner
/// fixed points joined by & or |. Every combination of kinds and templates; judged by the
/// reference semantics (names X, Y, Z, W, a, b, c stay within seven... so c is used only up to
/// depth 3).
fn nested_alternation(ctx: &mut Ctx) {
    let binders = ["X", "Y", "Z", "W"];
    let lit = |i: usize| match i % 3 {
        0 => Ast::var("a"),
        1 => Ast::var("b"),
        _ => Ast::not(Ast::var("a")),
    };
    let tmpl = |t: usize, v: Ast, a: Ast, next: Ast| match t {
        0 => Ast::bin(Bin::Or, v, Ast::bin(Bin::And, a, next)),
        1 => Ast::bin(Bin::And, v, Ast::bin(Bin::Or, a, next)),
        2 => Ast::bin(Bin::Or, a, Ast::bin(Bin::And, next, v)),
        _ => Ast::bin(Bin::And, Ast::bin(Bin::Or, next, v), a),
    };
    let mut asts: Vec<Ast> = vec![];
    let max_depth = if ctx.thorough() { 4 } else { 3 };
    for d in 2..=max_depth {
        for kinds in 0..(1usize << d) {
            for ts in 0..(1usize << (2 * d)) {
                // innermost `next`: each outer binder in turn, or a literal
                for inner in 0..d {
                    let innermost = if inner + 1 == d { lit(d) } else { Ast::var(binders[inner]) };
                    let mut cur = innermost;
                    for lvl in (0..d).rev() {
                        let t = (ts >> (2 * lvl)) & 3;
                        let body = tmpl(t, Ast::var(binders[lvl]), lit(lvl), cur);
                        cur = Ast::fp(binders[lvl], (kinds >> lvl) & 1 == 1, body);
                    }
                    asts.push(cur);
                }
            }
        }
    }
    // siblings: k0 X # A | ((k1 Y # T(Y, b, X)) op (k2 Z # T'(Z, -a, X | Y?))) — two inner fixed points
    for kinds in 0..8usize {
        for t1 in 0..4 {
            for t2 in 0..4 {
                for op in [Bin::And, Bin::Or] {
                    for deep in [false, true] {
                        let y = Ast::fp("Y", kinds & 2 != 0, tmpl(t1, Ast::var("Y"), lit(1), if deep { Ast::fp("W", kinds & 4 == 0, tmpl(t2, Ast::var("W"), lit(0), Ast::var("X"))) } else { Ast::var("X") }));
                        let z = Ast::fp("Z", kinds & 4 != 0, tmpl(t2, Ast::var("Z"), lit(2), Ast::var("X")));
                        asts.push(Ast::fp("X", kinds & 1 != 0, Ast::bin(Bin::Or, lit(0), Ast::bin(op, y, z))));
                    }
                }
            }
        }
    }
    let mut idx = 1u64 << 45;
    for a in asts {
        idx += 1;
        if !ctx.mine(idx) {
            continue;
        }
        let text = refl::pp(&a, refl::MINIMAL);
        if refl::parse(&text).as_ref() != Ok(&a) {
            panic!("machinery: round trip failed for {text}");
        }
        if crate::textsem::check_text(ctx, TAG, &a, &text).is_some() {
            ctx.distinct(&text);
            ctx.count("nested_alternating_fixed_points", 1);
        }
    }
}

fn run(ctx: &mut Ctx) {
    nested_alternation(ctx);
    let mut idx = 0u64;
    let th = ctx.thorough();
    body_sweep(ctx, false, if th { 6 } else { 5 }, &mut idx);
    body_sweep(ctx, true, if th { 5 } else { 4 }, &mut idx);
    body_sweep_alpha(ctx, cv_alpha(), if th { 5 } else { 4 }, &mut idx);
    for n in 1..=65usize {
        idx += 1;
        if ctx.mine(idx) {
            check_fp_chain(ctx, n);
        }
    }
    for k in 1..=6usize {
        for dual in [false, true] {
            idx += 1;
            if ctx.mine(idx) {
                check_many_rounds(ctx, k, dual);
            }
        }
    }
    // a counter over k names whose least fixed point needs 2^k rounds (k = 11: 2048 rounds)
    for k in [2usize, 5, 9, 10, 11] {
        idx += 1;
        if ctx.mine(idx) {
            let a = crate::textsem::counter_predecessor(k);
            let text = refl::pp(&a, refl::MINIMAL);
            if refl::parse(&text).as_ref() != Ok(&a) {
                panic!("machinery: round trip failed for {text}");
            }
            ctx.count("many_round_fixed_points", 1);
            if crate::textsem::check_text_big(ctx, TAG, &a, &text) {
                ctx.distinct(&text);
            }
        }
    }
    for map in 0..256usize {
        for start in 0..4usize {
            idx += 1;
            if ctx.mine(idx) {
                check_fp_api(ctx, map, start);
            }
        }
    }
}

fn replay(ctx: &mut Ctx, c: &Value) {
    if c["part"].as_str() == Some("fp-chain") {
        check_fp_chain(ctx, c["n"].as_u64().unwrap_or(1) as usize);
        return;
    }
    if c["part"].as_str() == Some("text") && c["text"].as_str().map(|t| t.contains(" Y # ") || t.contains(" W # ")).unwrap_or(false) {
        // nested alternation family
        let text = c["text"].as_str().unwrap_or("");
        if let Ok(a) = refl::parse(text) {
            crate::textsem::check_text(ctx, TAG, &a, text);
        }
        return;
    }
    if c["part"].as_str() == Some("text") && c["text"].as_str().map(|t| t.contains("s0") || t.contains("b0")).unwrap_or(false) {
        let text = c["text"].as_str().unwrap_or("");
        if let Ok(a) = refl::parse(text) {
            crate::textsem::check_text_big(ctx, TAG, &a, text);
        }
        return;
    }
    if c["part"].as_str() == Some("fp") {
        check_fp_api(ctx, c["map"].as_u64().unwrap_or(0) as usize, c["start"].as_u64().unwrap_or(0) as usize);
        return;
    }
    let text = c["text"].as_str().unwrap_or("");
    if let Ok(Ast::Fp(x, g, body)) = refl::parse(text) {
        if x == "X" {
            if let Some(an) = analyse(&body) {
                if an.monotone {
                    let sp = text.split_whitespace().next().unwrap_or("lfp").to_string();
                    check_fixpoint_text(ctx, &body, &an, g, &sp);
                }
            }
        }
    }
}
