//! C08 — the parser accepts exactly the grammar and builds the tree it prescribes.
//! Three exhaustive sweeps (DESIGN §3/C08): strings over a character alphabet through the
//! lexer; token sequences over the full token alphabet through the parser; sentences of
//! the grammar and all their one-token mutations.

use crate::conv::*;
use crate::enumerate::{self, for_each_seq, Alpha, Gen};
use crate::refl::{self, Ast, Bin, Cmp, Style, Tok};
use crate::runner::{Ctx, Engine};
use serde_json::{json, Value};

pub static ENGINE: Engine = Engine {
    prop: "C08",
    level: "exploration",
    rule: "every string <= L chars over an 18-char lexical alphabet (incl. backslash, quote, digits 0 and 1, a non-ASCII letter) (lexer vs reference scanner); every token sequence <= N over the full token alphabet incl. every alias spelling (parser vs reference LL(1) parser: Err vs Ok(tree), trees compared structurally by variable name); every grammar sentence with <= K AST nodes and every sentence of the depth-2 family (every node kind in every child position, 2 300 trees) in three print styles plus EVERY one-token deletion/insertion/replacement of it. long inputs with every kind of token straddling every power-of-two offset 64..65536. Ordering independence: every depth-2-family and full-alphabet (<= 3 nodes) sentence in word spelling parsed under an API ordering whose symbols are named after every word alias of the language. distinct = distinct syntax trees accepted by both sides + distinct token lists produced by the lexer sweep",
    assumptions: &[
        "the reference lexer/parser (harness/src/refl.rs, written from README and the property text) is the grammar",
        "numbers beyond usize::MAX may be rejected (never accepted with another value)",
        "non-ASCII digits are outside the claimed lexical alphabet",
    ],
    max_shards: 64,
    run,
    replay,
};

fn kinds() -> Vec<Tok> {
    use Tok::*;
    vec![
        Var("a".into()),
        Var("b".into()),
        Num("1".into()),
        Ref("r".into()),
        And,
        Or,
        Not,
        Xor,
        Nor,
        Nand,
        Implies,
        ImpliesInv,
        Iff,
        If,
        Then,
        Else,
        Exists,
        Forall,
        Eq,
        Geq,
        Gt,
        Lt,
        LP,
        RP,
        LS,
        RS,
        Comma,
        False,
        True,
        Lfp,
        Gfp,
        Hash,
        Var("X".into()),
    ]
}

fn reduced_kinds() -> Vec<Tok> {
    use Tok::*;
    vec![Var("a".into()), Num("1".into()), And, ImpliesInv, Not, If, Then, Else, Exists, Eq, Lt, LP, RP, LS, RS, Comma, True, Lfp, Hash]
}

/// every lexeme of the language: all spellings of all fixed tokens + a, b, X, 1, {r}
fn all_lexemes() -> Vec<String> {
    let mut out: Vec<String> = vec![];
    for t in kinds() {
        match &t {
            Tok::Var(v) => out.push(v.clone()),
            Tok::Num(n) => {
                out.push(n.clone());
                out.push("0".to_string());
                out.push("01".to_string());
                out.push("007".to_string());
            }
            Tok::Ref(r) => out.push(format!("{{{r}}}")),
            t => {
                for s in refl::spellings(t) {
                    out.push(s.to_string());
                }
            }
        }
    }
    out
}

fn numbers_fit(text: &str) -> bool {
    refl::lex(text).iter().all(|t| match t {
        Tok::Num(n) => n.parse::<usize>().is_ok(),
        _ => true,
    })
}

pub fn check_parse(ctx: &mut Ctx, text: &str) {
    ctx.begin_case(|| json!({"part": "parse", "text": text}));
    ctx.count("evaluations", 1);
    let rf = refl::parse(text);
    let im = impl_parse(text);
    let viol = |ctx: &mut Ctx, what: String| {
        ctx.violation(format!("parse:{text}"), what, json!({"part": "parse", "text": text}));
    };
    match (rf, im) {
        (_, ImplParse::Panic(p)) => viol(ctx, format!("parser panicked instead of returning Err/Ok: {p}")),
        (Ok(a), ImplParse::Ok(p)) => match conv(&p.bdd) {
            Some(t) if t == a => {
                ctx.count("accepted_same_tree", 1);
                ctx.distinct(&a);
                ctx.sample(|| json!({"text": text, "tree": format!("{:?}", a)}));
            }
            t => viol(ctx, format!("accepted with a different tree: grammar says {:?}, parser built {:?}", a, t)),
        },
        (Err(e), ImplParse::Ok(p)) => viol(ctx, format!("not a sentence of the grammar ({e}) but accepted as {:?}", conv(&p.bdd))),
        (Ok(a), ImplParse::Err(e)) => {
            if numbers_fit(text) {
                viol(ctx, format!("sentence of the grammar (tree {:?}) rejected: {e}", a))
            } else {
                ctx.count("rejected_oversized_number", 1);
            }
        }
        (Err(_), ImplParse::Err(_)) => ctx.count("rejected_by_both", 1),
    }
}

pub fn check_lex(ctx: &mut Ctx, text: &str) {
    ctx.begin_case(|| json!({"part": "lex", "text": text}));
    ctx.count("evaluations", 1);
    let rf = refl::lex(text);
    let viol = |ctx: &mut Ctx, what: String| {
        ctx.violation(format!("lex:{text}"), what, json!({"part": "lex", "text": text}));
    };
    match impl_tokenize(text.as_bytes()) {
        Err(p) => viol(ctx, format!("tokenizer panicked: {p}")),
        Ok(Err(e)) => viol(ctx, format!("tokenizer returned an error on valid UTF-8: {e}")),
        Ok(Ok(toks)) => {
            let eofs = toks.iter().filter(|t| **t == rsbdd::parser::SymbolicBDDToken::Eof).count();
            let it: Vec<Tok> = toks.iter().filter_map(conv_tok).collect();
            if it.iter().any(|t| matches!(t, Tok::Ref(r) if r.starts_with(crate::conv::UNKNOWN_TOKEN_KIND))) {
                // the tokenizer has token kinds the documented alphabet does not have; the property is
                // about the resulting syntax tree, which the parse-level sweeps judge
                ctx.count("lex_unknown_token_kind_not_judged", 1);
            } else if it != rf {
                viol(ctx, format!("token list differs: longest-match scanner gives {:?}, tokenizer gives {:?}", rf, it));
            } else if eofs != 1 || toks.last() != Some(&rsbdd::parser::SymbolicBDDToken::Eof) {
                viol(ctx, format!("end-of-input marker missing or repeated: {:?}", toks));
            } else {
                ctx.count("lex_same", 1);
                ctx.distinct(&rf);
            }
        }
    }
}

fn lexer_sweep(ctx: &mut Ctx) {
    let alpha: Vec<char> = "a10<=>-\"'{}#$ \u{e9}or\\/\u{2167}\u{301}".chars().collect();
    let maxlen = if ctx.thorough() { 6 } else { 5 };
    let mut base = 0u64;
    for len in 0..=maxlen {
        let mut s = String::new();
        let mut n = 0u64;
        for_each_seq(alpha.len(), len, &mut |idx, d| {
            n = idx + 1;
            if !ctx.mine(base + idx) {
                return;
            }
            s.clear();
            for &i in d {
                s.push(alpha[i]);
            }
            check_lex(ctx, &s);
        });
        base += n;
    }
    // keywords and aliases: alone, with a letter glued on, in upper case, next to digits
    let mut idx = 0u64;
    for lx in all_lexemes() {
        for v in [lx.clone(), format!("x{lx}"), format!("{lx}x"), lx.to_uppercase(), format!("{lx}1"), format!("1{lx}"), format!("{lx}'"), format!("{lx}{lx}"), format!("{lx} {lx}"), format!("_{lx}")] {
            idx += 1;
            if ctx.mine(idx) {
                check_lex(ctx, &v);
            }
        }
    }
}

fn seq_sweep(ctx: &mut Ctx, lexemes: &[String], maxlen: usize, label: &str) {
    let mut base = 0u64;
    let mut text = String::new();
    for len in 0..=maxlen {
        let mut n = 0u64;
        for_each_seq(lexemes.len(), len, &mut |idx, d| {
            n = idx + 1;
            if !ctx.mine(base + idx) {
                return;
            }
            text.clear();
            for (j, &i) in d.iter().enumerate() {
                if j > 0 {
                    text.push(' ');
                }
                text.push_str(&lexemes[i]);
            }
            check_parse(ctx, &text);
            ctx.count(label, 1);
        });
        base += n;
    }
}

fn syntactic_alpha() -> Alpha {
    let s = |x: &str| x.to_string();
    Alpha {
        leaves: vec![Ast::var("a"), Ast::True],
        not: true,
        bins: vec![Bin::And, Bin::ImpliesInv],
        ite: true,
        quants: vec![(true, vec![s("a")]), (true, vec![]), (false, vec![s("a"), s("b")])],
        fps: vec![(s("X"), false)],
        cmps: vec![Cmp::Exactly, Cmp::AtMost],
        nums: vec![s("1")],
        cv: true,
        max_list: 2,
    }
}

const STYLES: [Style; 3] = [refl::MINIMAL, refl::FULL, Style { full_parens: false, trailing_comma: true }];

/// sentence acceptance under three print styles, alias spellings and odd separators
fn check_sentence(ctx: &mut Ctx, a: &Ast, salt: u64) {
    let mut k = salt as usize;
    for (si, st) in STYLES.iter().enumerate() {
        let toks = refl::to_tokens(a, *st);
        // machinery self-check: the printer must be an inverse of the reference parser
        if refl::P::formula(&toks).as_ref() != Ok(a) {
            panic!("machinery: reference printer/parser round trip failed on {:?} -> {:?}", a, toks);
        }
        let text = refl::render(&toks, &mut |n| {
            k = k.wrapping_mul(31).wrapping_add(7);
            if si == 0 {
                0
            } else {
                k % n
            }
        });
        check_parse(ctx, &text);
        if si == 0 {
            // same tokens with comments, tabs, newlines, NULs and stray characters between them
            let seps = [" \"c\" ", "\n", "\t ", " \0 ", " $ ", "  \"\"  ", " \" # & \" "];
            let mut t2 = String::new();
            for (i, w) in text.split(' ').enumerate() {
                if i > 0 {
                    t2.push_str(seps[(i + salt as usize) % seps.len()]);
                }
                t2.push_str(w);
            }
            t2.push_str(seps[salt as usize % seps.len()]);
            check_parse(ctx, &t2);
        }
    }
}

/// every one-token deletion, insertion and replacement of the minimal-style token list
fn mutate_sentence(ctx: &mut Ctx, a: &Ast, kinds: &[Tok]) {
    let toks = refl::to_tokens(a, refl::MINIMAL);
    let n = toks.len();
    let mut buf: Vec<Tok> = Vec::with_capacity(n + 1);
    for i in 0..n {
        buf.clear();
        buf.extend_from_slice(&toks[..i]);
        buf.extend_from_slice(&toks[i + 1..]);
        check_parse(ctx, &refl::render_canon(&buf));
        ctx.count("mutants", 1);
    }
    for i in 0..=n {
        for k in kinds {
            buf.clear();
            buf.extend_from_slice(&toks[..i]);
            buf.push(k.clone());
            buf.extend_from_slice(&toks[i..]);
            check_parse(ctx, &refl::render_canon(&buf));
            ctx.count("mutants", 1);
        }
    }
    for i in 0..n {
        for k in kinds {
            if *k == toks[i] {
                continue;
            }
            buf.clear();
            buf.extend_from_slice(&toks[..i]);
            buf.push(k.clone());
            buf.extend_from_slice(&toks[i + 1..]);
            check_parse(ctx, &refl::render_canon(&buf));
            ctx.count("mutants", 1);
        }
    }
}

/// The tree of a text does not depend on the ordering handed to the parser: every sentence of
/// the depth-2 family and every full-alphabet sentence <= 3 nodes, spelled with the WORD aliases
/// (and, or, not, exists, mu, ...), parsed under an API ordering whose symbols are named after
/// every word alias of the language (ids 1000..) followed by the formula's own names.
fn keyword_ordering_sweep(ctx: &mut Ctx) {
    let mut words: Vec<String> = vec![];
    for t in kinds() {
        for sp in refl::spellings(&t) {
            if sp.chars().all(|c| c.is_ascii_alphabetic()) && !words.contains(&sp.to_string()) {
                words.push(sp.to_string());
            }
        }
    }
    let mut asts: Vec<Ast> = enumerate::depth2_family();
    let mut g = Gen::new(enumerate::full_alpha());
    for n in 1..=3 {
        g.stream(n, &mut |a| asts.push(a));
    }
    for (i, a) in asts.iter().enumerate() {
        if !ctx.mine(i as u64) {
            continue;
        }
        let text = refl::render(&refl::to_tokens(a, refl::MINIMAL), &mut |n| n - 1);
        if refl::parse(&text).as_ref() != Ok(a) {
            panic!("machinery: round trip failed for {text}");
        }
        let mut ordering: Vec<rsbdd::NamedSymbol> = words.iter().enumerate().map(|(k, w)| sym(w, 1000 + k)).collect();
        ordering.extend(a.names().iter().enumerate().map(|(k, n)| sym(n, 5000 + 3 * k)));
        let case = json!({"part": "keyword-ordering", "text": text});
        ctx.begin_case(|| case.clone());
        ctx.count("evaluations", 1);
        ctx.count("sentences_under_keyword_named_ordering", 1);
        match impl_parse_bytes(text.as_bytes(), Some(ordering)) {
            ImplParse::Ok(p) => {
                if conv(&p.bdd).as_ref() != Some(a) {
                    ctx.violation(format!("parse under keyword-named ordering:{text}"), format!("under an ordering that contains symbols named like keywords the text parses to {:?}, the grammar says {:?}", conv(&p.bdd), a), case);
                }
            }
            ImplParse::Err(e) => ctx.violation(format!("parse under keyword-named ordering:{text}"), format!("a sentence of the grammar is rejected when the ordering contains symbols named like keywords: {e}"), case),
            ImplParse::Panic(m) => ctx.violation(format!("parse under keyword-named ordering:{text}"), format!("parser panicked: {m}"), case),
        }
    }
}

fn grammar_sweep(ctx: &mut Ctx) {
    let kinds = kinds();
    let red = reduced_kinds();
    let mut idx = 0u64;
    // full alphabet
    let mut g = Gen::new(enumerate::full_alpha());
    let (accept_upto, mutate_upto) = if ctx.thorough() { (4, 3) } else { (3, 2) };
    for size in 1..=accept_upto {
        let mut todo: Vec<Ast> = vec![];
        g.stream(size, &mut |a| {
            idx += 1;
            if ctx.mine(idx) {
                todo.push(a);
            }
            if todo.len() >= 4096 {
                for a in todo.drain(..) {
                    check_sentence(ctx, &a, idx);
                    ctx.count("sentences_full_alphabet", 1);
                    if size <= mutate_upto {
                        mutate_sentence(ctx, &a, &kinds);
                    }
                }
            }
        });
        for a in todo.drain(..) {
            check_sentence(ctx, &a, idx);
            ctx.count("sentences_full_alphabet", 1);
            if size <= mutate_upto {
                mutate_sentence(ctx, &a, &kinds);
            }
        }
    }
    // every node kind in every child position (depth-bounded family), with mutations
    for a in enumerate::depth2_family() {
        idx += 1;
        if ctx.mine(idx) {
            check_sentence(ctx, &a, idx);
            ctx.count("sentences_depth2_family", 1);
            mutate_sentence(ctx, &a, &red);
        }
    }
    // deep and wide sentences (acceptance only): chains to depth 40, towers, long lists
    for a in crate::props::c01::deep_asts() {
        idx += 1;
        if ctx.mine(idx) {
            check_sentence(ctx, &a, idx);
            ctx.count("sentences_deep_family", 1);
        }
    }
    // syntactic alphabet, deeper
    let mut g = Gen::new(syntactic_alpha());
    let upto = if ctx.thorough() { 5 } else { 4 };
    for size in 1..=upto {
        let mut todo: Vec<Ast> = vec![];
        g.stream(size, &mut |a| {
            idx += 1;
            if ctx.mine(idx) {
                todo.push(a);
            }
        });
        for a in todo.drain(..) {
            check_sentence(ctx, &a, idx);
            ctx.count("sentences_syntactic_alphabet", 1);
            // the largest sentences of each tier are mutated with one representative per grammar
            // class (19 kinds), all smaller ones with all 33 token kinds
            if size == upto {
                mutate_sentence(ctx, &a, &red);
            } else {
                mutate_sentence(ctx, &a, &kinds);
            }
        }
    }
}

/// long inputs: every kind of token placed across every power-of-two byte offset from 64 to
/// 65536 (typical block / buffer sizes), with spaces, newlines or a long comment in front
fn boundary_sweep(ctx: &mut Ctx) {
    // (text, index of a byte in the middle of the sensitive token)
    let samples: [(&str, usize); 8] = [
        ("alarm_raised | notify_operator", 20),
        ("a implies b", 5),
        ("a <=> b", 3),
        ("[a, b] >= 12345 & c", 12),
        ("a & \"a comment with an | in it\" b", 12),
        ("{reference} | a", 5),
        ("x' & nand1 nand y", 11),
        ("exists va\u{e9}r # va\u{e9}r & b", 10),
    ];
    let mut idx = 0u64;
    for k in 6..=16u32 {
        let b = 1usize << k;
        for (text, mid) in samples {
            for delta in 0..3usize {
                for pad in 0..3usize {
                    idx += 1;
                    if !ctx.mine(idx) {
                        continue;
                    }
                    let n = b - mid - delta + 1;
                    let prefix = match pad {
                        0 => " ".repeat(n),
                        1 => "\n".repeat(n),
                        _ => format!("\"{}\"", "c".repeat(n.saturating_sub(2))),
                    };
                    let t = format!("{prefix}{text}");
                    check_parse(ctx, &t);
                    ctx.count("boundary_inputs", 1);
                }
            }
        }
    }
}

/// very many brackets / parentheses / binders in one text, flat (not nested): 9 000 counting
/// lists, 9 000 parenthesised atoms, 3 000 quantifiers in a row of disjuncts
fn many_constructs(ctx: &mut Ctx) {
    let texts: Vec<(usize, String)> = vec![
        (0, (0..9000).map(|i| format!("[a, b{}] >= 1", i % 7)).collect::<Vec<_>>().join(" | ")),
        (1, (0..9000).map(|i| format!("(a{})", i % 5)).collect::<Vec<_>>().join(" & ")),
        (2, (0..3000).map(|i| format!("(exists x{} # x{} & a)", i % 3, i % 3)).collect::<Vec<_>>().join(" | ")),
        (3, format!("[{}] >= 4000", (0..9000).map(|i| format!("a{}", i % 11)).collect::<Vec<_>>().join(", "))),
    ];
    for (i, t) in texts {
        if ctx.mine(i as u64) {
            refl::MAX_DEPTH.with(|d| d.set(1_000_000));
            let r = std::thread::scope(|sc| std::thread::Builder::new().stack_size(1 << 30).spawn_scoped(sc, || {
                refl::MAX_DEPTH.with(|d| d.set(1_000_000));
                let mut c2 = Ctx::new("C08", ctx.tier, ctx.seed, 0, 1);
                check_parse(&mut c2, &t);
                c2.violations
            }).ok().and_then(|h| h.join().ok()));
            ctx.count("many_construct_texts", 1);
            match r {
                Some(vs) => {
                    for v in vs {
                        ctx.violation(format!("parse: text with thousands of flat constructs (kind {i})"), v.what.chars().take(300).collect(), json!({"part": "many", "kind": i}));
                    }
                }
                None => panic!("machinery: the large-stack thread failed"),
            }
        }
    }
}

fn run(ctx: &mut Ctx) {
    lexer_sweep(ctx);
    boundary_sweep(ctx);
    many_constructs(ctx);
    let lex_all = all_lexemes();
    let lex_kinds: Vec<String> = kinds().iter().map(|t| refl::render_canon(std::slice::from_ref(t))).collect();
    let lex_red: Vec<String> = reduced_kinds().iter().map(|t| refl::render_canon(std::slice::from_ref(t))).collect();
    if ctx.thorough() {
        seq_sweep(ctx, &lex_all, 4, "token_sequences_all_spellings");
        seq_sweep(ctx, &lex_kinds, 5, "token_sequences_kinds");
        seq_sweep(ctx, &lex_red, 6, "token_sequences_reduced");
    } else {
        seq_sweep(ctx, &lex_all, 3, "token_sequences_all_spellings");
        seq_sweep(ctx, &lex_kinds, 4, "token_sequences_kinds");
    }
    grammar_sweep(ctx);
    keyword_ordering_sweep(ctx);
}

fn replay(ctx: &mut Ctx, case: &Value) {
    let text = case["text"].as_str().unwrap_or("");
    match case["part"].as_str() {
        Some("lex") => check_lex(ctx, text),
        Some("many") => {
            let mut c2 = Ctx::new("C08", ctx.tier, ctx.seed, case["kind"].as_u64().unwrap_or(0) % 4, 4);
            many_constructs(&mut c2);
            for v in c2.violations {
                ctx.violation(v.key, v.what, v.replay);
            }
        }
        Some("keyword-ordering") => {
            let mut c2 = Ctx::new("C08", ctx.tier, ctx.seed, 0, 1);
            keyword_ordering_sweep(&mut c2);
            for v in c2.violations {
                if v.replay == *case {
                    ctx.violation(v.key, v.what, v.replay);
                }
            }
        }
        _ => check_parse(ctx, text),
    }
}
