//! C03 — connectives compute the pointwise Boolean operation of their operands
//! (BDDEnv<usize> API; semantic closure over F_3, one-sided sweep over F_4).

use crate::closure::*;
use crate::refl::ALL_BINS;
use crate::runner::{Ctx, Engine};
use crate::space::Space;
use serde_json::Value;

pub static ENGINE: Engine = Engine {
    prop: "C03",
    level: "model_checking",
    rule: "state-space closure through BDDEnv<usize>: states = Boolean functions over k ordered variables with non-adjacent ids, held as the diagrams the engine itself produced; BFS from {true,false,var(s)} under not/and/or/implies/eq/xor/nor/nand until a round adds nothing (must reach all 2^(2^k)); then EVERY operator on EVERY operand tuple (k=2 and k=3 complete for unary and binary, ite complete for k=2 and with the condition restricted to constants/variables for k=3 in quick, complete 256^3 in thorough); plus the same sweep with operands that were never interned in the operating environment (plain diagrams as obtained from BDD::from or another environment), F_4 x basis sweeps and a 185-member family over 6 variables. Oracle: truth table of the result = pointwise operation of the operand tables, operands structurally unchanged. One representative of each of the 222 classes of four-variable functions (under input permutation / input negation / output negation) against ALL 65 536 functions in both operand positions under and / or (every connective in thorough). Thorough tier additionally: COMPLETE operand pairs over F_4 (2^16 x 2^16 = 4.3e9 per connective) for and / or (the connectives with a recursion of their own; VCHECK_PAIRS4_OPS=all for all seven); every unary/binary connective on all of F_3 in a BDDEnv<NamedSymbol> whose ids agree in their low 32 bits (both tiers). distinct = distinct (operator, operand tuple)",
    assumptions: &["truth tables are read by an independent walker that addresses variables by symbol", "k <= 4 variables (small scope in the number of variables; closure argument of DESIGN.md §1 makes depth unbounded)"],
    max_shards: 64,
    run,
    replay,
};

const ORACLE: Oracle = Oracle { semantic: true, canonical: false };
const TAG: &str = "C03";

pub fn basis4(sp: &Space<usize>, quick: bool) -> Vec<u64> {
    // all functions of a pair of variables, for several pairs (nested / disjoint / interleaved supports)
    let pairs: &[(usize, usize)] = if quick { &[(1, 2)] } else { &[(1, 2), (0, 2), (1, 3), (0, 3)] };
    let mut out: Vec<u64> = vec![];
    for &(i, j) in pairs {
        let (vi, vj) = (sp.var_tt(i), sp.var_tt(j));
        for f in 0..16u64 {
            // f as a function of (vi, vj)
            let mut t = 0u64;
            for a in 0..16usize {
                let bi = (vi >> a) & 1;
                let bj = (vj >> a) & 1;
                if (f >> (bi + 2 * bj)) & 1 == 1 {
                    t |= 1 << a;
                }
            }
            if !out.contains(&t) {
                out.push(t);
            }
        }
    }
    out
}

pub fn f4_sweep(ctx: &mut Ctx, oracle: Oracle, tag: &str) {
    let syms = [0usize, 3, 4, 9];
    let sp = match Space::<usize>::by_interning(&syms) {
        Ok(s) => s,
        Err(e) => {
            ctx.violation(format!("{tag} api syms={syms:?}: building operands"), e, serde_json::json!({"part": "api", "syms": syms, "space": "interned", "op": "not", "operands": [0]}));
            return;
        }
    };
    ctx.global("states_k4", sp.order.len() as u64);
    let basis = basis4(&sp, !ctx.thorough());
    let mut idx = 0u64;
    for f in 0..65536u64 {
        idx += 1;
        if !ctx.mine(idx) {
            continue;
        }
        check_api(ctx, &sp, "interned", ApiOp::Not, &[f], oracle, tag);
        for &g in &basis {
            for b in ALL_BINS {
                check_api(ctx, &sp, "interned", ApiOp::Bin(b), &[f, g], oracle, tag);
                check_api(ctx, &sp, "interned", ApiOp::Bin(b), &[g, f], oracle, tag);
            }
        }
    }
}

fn run(ctx: &mut Ctx) {
    let mut states = 0;
    for (syms, ite) in [(vec![2usize, 7], IteMode::Full), (vec![1usize, 4, 6], if ctx.thorough() { IteMode::Full } else { IteMode::CondInit })] {
        let sp = discover_api(ctx, &syms, ORACLE, TAG);
        let reached = sp.order.len() as u64;
        states += reached;
        ctx.global(&format!("states_k{}", syms.len()), reached);
        if reached != sp.nfun() as u64 {
            ctx.violation(
                format!("{TAG} api syms={syms:?}: closure"),
                format!("the closure reached only {reached} of {} functions", sp.nfun()),
                serde_json::json!({"part": "api-init", "syms": syms, "what": "closure"}),
            );
        }
        sweep_api(ctx, &sp, "closure", ORACLE, ite, TAG);
    }
    // operands that were never interned in the environment that operates on them
    let spf = Space::<usize>::by_foreign(&[1, 4, 6]);
    sweep_api(ctx, &spf, "foreign", ORACLE, IteMode::CondInit, TAG);
    // short-lived copies as operands in an environment that holds their interned twins
    if let Ok(spt) = Space::<usize>::by_interning(&[1, 4, 6]) {
        sweep_api(ctx, &spt, "transient", ORACLE, IteMode::CondInit, TAG);
    }
    f4_sweep(ctx, ORACLE, TAG);
    deep_chain_sweep(ctx, TAG);
    if ctx.thorough() {
        // complete F_4 x F_4 for every connective (2^32 pairs each)
        let ops = pairs4_ops();
        pairs4_sweep(ctx, ORACLE, TAG, &ops, "pairs_k4_complete");
    }
    sweep_named_wide(ctx, ORACLE, TAG);
    // every shape of four-variable function against all of F_4, both operand positions
    reps4_sweep(ctx, ORACLE, TAG, if ctx.thorough() { &crate::refl::ALL_BINS } else { &[crate::refl::Bin::And, crate::refl::Bin::Or] });
    sweep_family6(ctx, ORACLE, TAG);
    let s4 = ctx.globals.get("states_k4").copied().unwrap_or(0);
    ctx.global("states", states + s4);
}

fn replay(ctx: &mut Ctx, case: &Value) {
    if case["part"].as_str() == Some("deep-chain") {
        let mut c2 = Ctx::new("C03", ctx.tier, ctx.seed, 0, 1);
        deep_chain_sweep(&mut c2, TAG);
        for v in c2.violations {
            if v.replay == *case {
                ctx.violation(v.key, v.what, v.replay);
            }
        }
        return;
    }
    if case["part"].as_str() == Some("named-wide") {
        replay_named_wide(ctx, case, ORACLE, TAG);
        return;
    }
    if case["part"].as_str() == Some("family6") {
        replay_family6(ctx, case, ORACLE, TAG);
        return;
    }
    replay_api(ctx, case, ORACLE, TAG);
}
