//! C15 — n_queens_gen emits a formula whose models are exactly the n-queens solutions.

use crate::cli::{parse_table, run_bin, scratch_file, Cell};
use crate::puzzles::*;
use crate::refl::{self, Ast, Cmp};
use crate::runner::{Ctx, Engine};
use rustc_hash::FxHashMap;
use serde_json::{json, Value};

pub static ENGINE: Engine = Engine {
    prop: "C15",
    level: "exploration",
    rule: "the real n_queens_gen binary for every board size n = 1..N: (a) the reference lexer/parser accept the text and its variables are exactly v_0..v_(n*n-1); (b) the exact model set of the emitted formula under the reference semantics (all 2^(n*n) assignments for n <= 4; exhaustive constraint-DFS enumeration that only cuts a branch when a top-level conjunct is already false for n <= 8 (10)) equals the set of placements found by an independent backtracking solver; (c) the real `rsbdd <file> -t -f true` lists exactly those placements for n <= 6 (7); (d) for every n <= 12 and for n in {13,15,16,17,31,32,33,64,100,127,128,129,181,182,183,255,256,257,300,316,317,350,500,683}, thorough also 911, 1001 and 1025 (structure only): the `= 1` lists are exactly the rows and columns and the `<= 1` lists exactly the 2(2n-1) diagonals, each once, every attacking pair of squares shares a list, no list holds a non-attacking pair, and every reference solution satisfies the formula. Even sizes are read from stdout, odd sizes from an existing, longer OUTPUT file whose name has a blank and a quote. distinct = distinct (n, observation) pairs + distinct models compared",
    assumptions: &["reference semantics (harness/src/puzzles.rs, refl.rs); brute-force n-queens solver", "exact model-set equality up to n = 10, structural exactness up to n = 12"],
    max_shards: 16,
    run,
    replay,
};

const TAG: &str = "C15";

fn generate(n: usize) -> Result<String, String> {
    // even sizes through stdout, odd sizes into an existing, longer OUTPUT file
    let r = crate::cli::run_gen("n_queens_gen", &["-n".to_string(), n.to_string()], b"", false, if n % 2 == 1 { 2 } else { 0 });
    if !r.ok() {
        return Err(format!("n_queens_gen -n {n} failed: {} {}", r.describe(), r.err_tail()));
    }
    Ok(r.out())
}

fn square_of(name: &str) -> Option<usize> {
    name.strip_prefix("v_").and_then(|s| s.parse().ok())
}

fn check_n(ctx: &mut Ctx, n: usize, part: &str) {
    let case = json!({"part": part, "n": n});
    ctx.begin_case(|| case.clone());
    ctx.count("evaluations", 1);
    ctx.distinct(&(n, part));
    let key = format!("{TAG} n={n} ({part})");
    let text = match generate(n) {
        Ok(t) => t,
        Err(e) => {
            ctx.violation(key, e, case);
            return;
        }
    };
    let ast = match refl::parse(&text) {
        Ok(a) => a,
        Err(e) => {
            ctx.violation(key, format!("the output is not a well-formed formula: {e}"), case);
            return;
        }
    };
    let mut names = ast.names();
    let want_names: Vec<String> = (0..n * n).map(|k| format!("v_{k}")).collect();
    {
        let mut sorted = names.clone();
        sorted.sort_by_key(|s| square_of(s).unwrap_or(usize::MAX));
        if sorted != want_names || ast.free_names().len() != names.len() {
            let odd: Vec<&String> = sorted.iter().zip(want_names.iter()).filter(|(g, w)| g != w).map(|(g, _)| g).take(8).collect();
            ctx.violation(key, format!("the formula has {} variables, expected the {} names v_0..v_{}; first names that do not fit: {:?}", sorted.len(), n * n, n * n - 1, odd), case);
            return;
        }
    }
    names.sort_by_key(|s| square_of(s).unwrap_or(usize::MAX));
    let sols = if n <= 12 { queens_solutions(n) } else { vec![] };
    match part {
        "structure" => {
            let mut eq_lists: Vec<Vec<usize>> = vec![];
            let mut le_lists: Vec<Vec<usize>> = vec![];
            let mut other = vec![];
            for c in conjuncts(&ast) {
                match c {
                    Ast::CC(op, l, k) if k == "1" && l.iter().all(|x| matches!(x, Ast::Var(_))) => {
                        let mut sq: Vec<usize> = l.iter().filter_map(|x| if let Ast::Var(v) = x { square_of(v) } else { None }).collect();
                        sq.sort_unstable();
                        match op {
                            Cmp::Exactly => eq_lists.push(sq),
                            Cmp::AtMost => le_lists.push(sq),
                            _ => other.push(format!("{:?}", c)),
                        }
                    }
                    Ast::True => {}
                    o => other.push(format!("{:?}", o)),
                }
            }
            let mut want_eq: Vec<Vec<usize>> = vec![];
            for i in 0..n {
                want_eq.push((0..n).map(|j| i * n + j).collect());
                want_eq.push((0..n).map(|j| j * n + i).collect());
            }
            let mut want_le: Vec<Vec<usize>> = vec![];
            for d in 0..(2 * n - 1) {
                // r + c = d and r - c = d - (n-1)
                let mut anti: Vec<usize> = (0..n).filter(|r| d >= *r && d - r < n).map(|r| r * n + (d - r)).collect();
                let mut main: Vec<usize> = (0..n).filter(|r| r + (n - 1) >= d && r + (n - 1) - d < n).map(|r| r * n + (r + (n - 1) - d)).collect();
                anti.sort_unstable();
                main.sort_unstable();
                want_le.push(anti);
                want_le.push(main);
            }
            eq_lists.sort();
            le_lists.sort();
            want_eq.sort();
            want_le.sort();
            let mut c = vec![];
            if !other.is_empty() {
                c.push(format!("unexpected conjuncts: {:?}", &other[..other.len().min(3)]));
            }
            if eq_lists != want_eq {
                c.push(format!("the `= 1` lists are not exactly the rows and columns: got {:?}", eq_lists));
            }
            if le_lists != want_le {
                c.push(format!("the `<= 1` lists are not exactly the diagonals, each once: got {:?}", le_lists));
            }
            // direct pair check (quadratic in the number of squares: boards up to 12x12; for
            // larger boards the equality of the list families above already implies it)
            for p in 0..(if n <= 12 { n * n } else { 0 }) {
                for q in (p + 1)..n * n {
                    let together = eq_lists.iter().chain(le_lists.iter()).any(|l| l.contains(&p) && l.contains(&q));
                    if queens_attack(n, p, q) != together {
                        c.push(format!("squares {p} and {q} {} but {} a constraint list", if queens_attack(n, p, q) { "attack each other" } else { "do not attack each other" }, if together { "share" } else { "share no" }));
                        break;
                    }
                }
                if c.len() > 3 {
                    break;
                }
            }
            // every reference solution satisfies the formula
            for s in sols.iter().take(if n <= 12 { 2000 } else { 0 }) {
                let mut env: FxHashMap<String, bool> = names.iter().map(|v| (v.clone(), false)).collect();
                for sq in s {
                    env.insert(format!("v_{sq}"), true);
                }
                ctx.count("solutions_checked", 1);
                if !eval_total(&ast, &mut env) {
                    c.push(format!("the placement {:?} is a solution but does not satisfy the formula", s));
                    break;
                }
            }
            if !c.is_empty() {
                c.truncate(4);
                ctx.violation(key, c.join("; "), case);
            }
        }
        "models" => {
            let models: Vec<Vec<usize>> = if n <= 4 {
                let mut out = vec![];
                for m in 0..(1u64 << (n * n)) {
                    let mut env: FxHashMap<String, bool> = FxHashMap::default();
                    for (i, v) in names.iter().enumerate() {
                        env.insert(v.clone(), (m >> i) & 1 == 1);
                    }
                    if eval_total(&ast, &mut env) {
                        out.push((0..n * n).filter(|i| (m >> i) & 1 == 1).collect());
                    }
                }
                ctx.count("assignments_enumerated", 1u64 << (n * n));
                out
            } else {
                match enumerate_models(&ast, &names, 100_000, 200_000_000) {
                    None => {
                        ctx.cap_hit(format!("model enumeration for n={n} exceeded its budget"));
                        return;
                    }
                    Some(ms) => ms.into_iter().map(|m| m.iter().enumerate().filter(|(_, b)| **b).map(|(i, _)| i).collect()).collect(),
                }
            };
            let mut got = models;
            got.sort();
            let mut want = sols.clone();
            want.sort();
            for m in &got {
                ctx.distinct(&(n, m));
            }
            if got != want {
                let extra: Vec<&Vec<usize>> = got.iter().filter(|m| !want.contains(m)).take(2).collect();
                let missing: Vec<&Vec<usize>> = want.iter().filter(|m| !got.contains(m)).take(2).collect();
                ctx.violation(key, format!("the formula has {} models, there are {} placements of {n} non-attacking queens; models that are no solution: {:?}; solutions that are no model: {:?}", got.len(), want.len(), extra, missing), case);
            }
            ctx.sample(|| json!({"n": n, "models": got.len(), "first_model_squares": got.first()}));
        }
        _ => {
            // real solver on the real output
            let f = scratch_file(&format!("queens{n}.txt"), text.as_bytes());
            let r = crate::cli::rsbdd(&[f.display().to_string(), "-t".into(), "-f".into(), "true".into()], None);
            if !r.ok() {
                ctx.violation(key, format!("rsbdd failed on the generated file: {} {}", r.describe(), r.err_tail()), case);
                return;
            }
            match parse_table(&r.out()) {
                Err(e) => ctx.violation(key, format!("unreadable table: {e}"), case),
                Ok(t) => {
                    let cols: Vec<Option<usize>> = t.header.iter().map(|h| square_of(h)).collect();
                    let mut got: Vec<Vec<usize>> = vec![];
                    for (cells, res) in &t.rows {
                        if !*res || cells.iter().any(|c| *c == Cell::Any) {
                            ctx.violation(key, "a listed row is not a total satisfying assignment".into(), case);
                            return;
                        }
                        let mut sq: Vec<usize> = cells.iter().zip(cols.iter()).filter(|(c, _)| **c == Cell::T).filter_map(|(_, s)| *s).collect();
                        sq.sort_unstable();
                        got.push(sq);
                    }
                    got.sort();
                    let mut want = sols.clone();
                    want.sort();
                    if got != want {
                        ctx.violation(key, format!("rsbdd lists {} placements, the reference solver finds {}", got.len(), want.len()), case);
                    }
                }
            }
        }
    }
}

fn run(ctx: &mut Ctx) {
    let th = ctx.thorough();
    let mut jobs: Vec<(usize, &str)> = vec![];
    for n in 1..=12 {
        jobs.push((n, "structure"));
    }
    // larger boards, in particular around the limits of 8- and 16-bit arithmetic
    for n in [13usize, 15, 16, 17, 31, 32, 33, 64, 100, 127, 128, 129, 181, 182, 183, 255, 256, 257, 300, 316, 317, 350, 500, 683] {
        jobs.push((n, "structure"));
    }
    if th {
        // seven-digit square indices (a 60 MB formula; about three minutes for one worker)
        jobs.push((911, "structure"));
        jobs.push((1001, "structure"));
        jobs.push((1025, "structure"));
    }
    for n in 1..=(if th { 10 } else { 8 }) {
        jobs.push((n, "models"));
    }
    for n in 1..=(if th { 7 } else { 6 }) {
        jobs.push((n, "rsbdd"));
    }
    // expensive jobs first so that the shards balance
    jobs.sort_by_key(|(n, p)| std::cmp::Reverse(match *p { "rsbdd" => n * 3, "models" => n * 2, _ => *n }));
    for (i, (n, p)) in jobs.iter().enumerate() {
        if ctx.mine(i as u64) {
            check_n(ctx, *n, p);
        }
    }
    crate::cli::cleanup_scratch();
}

fn replay(ctx: &mut Ctx, c: &Value) {
    check_n(ctx, c["n"].as_u64().unwrap_or(1) as usize, c["part"].as_str().unwrap_or("structure"));
    crate::cli::cleanup_scratch();
}
