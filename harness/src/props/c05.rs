//! C05 — counting comparisons count the true operands exactly.

use crate::enumerate::{for_each_seq, Alpha, Gen};
use crate::refl::{self, cmp_holds, Ast, Bin, Cmp, ALL_CMPS};
use crate::robdd;
use crate::runner::{guarded, Ctx, Engine};
use crate::space::Space;
use crate::textsem::*;
use rsbdd::bdd::{BDDEnv, BDD};
use serde_json::{json, Value};
use std::rc::Rc;

pub static ENGINE: Engine = Engine {
    prop: "C05",
    level: "exploration",
    rule: "API: every operand list of length 0..L over ALL functions of k variables (k=2: L=4, k=3: L=2; repeated and overlapping operands arise by construction) x every bound n in -2..L+2 x {aln, amn, exn}; every pair of lists (k=2: <=2 x <=2, thorough <=3 x <=2) x {count_leq, lt, geq, gt, eq}; the admissible extreme bounds i64::MIN+L and i64::MAX-L; a structured family of longer lists (5..9 operands over 6 variables, 3..5 vs 3..5 for list comparisons); oracle = per-assignment integer count. Language: every AST <= N nodes over a counting alphabet (5 comparisons x constants 0..3 x lists <= 3, list-vs-list, nesting, `<=` in counting position next to `<=` as connective) and a family of extreme constants around 2^63 and 2^64 (accepted => exact meaning, not representable => Err). Pool pairs: every pair of lists with <= 3 operands per side over a pool of five operand functions and <= 4 per side over a pool of three (same operands, different multiplicities) x the five list comparisons. distinct = distinct (operation, operand list, bound) + distinct formula texts",
    assumptions: &["reference counts in unbounded integers", "k <= 3, list length <= 4, AST size bound"],
    max_shards: 64,
    run,
    replay,
};

const TAG: &str = "C05";
type H = Rc<BDD<usize>>;

fn syms_for(k: usize) -> Vec<usize> {
    if k == 2 {
        vec![3, 8]
    } else {
        vec![1, 4, 6]
    }
}

fn case_const(k: usize, ops: &[u64], n: i64) -> Value {
    json!({"part": "const", "k": k, "operands": ops, "n": n})
}
fn case_lists(k: usize, l: &[u64], r: &[u64]) -> Value {
    json!({"part": "lists", "k": k, "left": l, "right": r})
}

fn count_at(ops: &[u64], a: usize) -> i128 {
    ops.iter().filter(|t| (**t >> a) & 1 == 1).count() as i128
}

fn check_const(ctx: &mut Ctx, sp: &Space<usize>, ops: &[u64], n: i64) {
    let k = sp.k;
    ctx.begin_case(|| case_const(k, ops, n));
    ctx.count("evaluations", 1);
    ctx.count("distinct_by_construction", 1);
    let hs: Vec<H> = ops.iter().map(|t| sp.get(*t)).collect();
    let env = sp.env.clone();
    let key = || format!("{TAG} api k={k}: operands {:?} bound {n}", ops.iter().map(|t| format!("{t:#x}")).collect::<Vec<_>>());
    match guarded(|| (env.aln(&hs, n), env.amn(&hs, n), env.exn(&hs, n))) {
        Err(p) => ctx.violation(key(), format!("counting panicked: {p}"), case_const(k, ops, n)),
        Ok((al, am, ex)) => {
            let mut c = vec![];
            for (name, h, f) in [("at-least", &al, 0), ("at-most", &am, 1), ("exactly", &ex, 2)] {
                let mut want = 0u64;
                for a in 0..(1usize << k) {
                    let cnt = count_at(ops, a);
                    let ok = match f {
                        0 => cnt >= n as i128,
                        1 => cnt <= n as i128,
                        _ => cnt == n as i128,
                    };
                    if ok {
                        want |= 1 << a;
                    }
                }
                match sp.tt(h) {
                    Err(m) => c.push(m),
                    Ok(t) if t != want => c.push(format!("{name}-{n} is true under {t:#x}, counting the true operands gives {want:#x}")),
                    _ => {}
                }
            }
            if !c.is_empty() {
                ctx.violation(key(), c.join("; "), case_const(k, ops, n));
            }
            ctx.sample(|| json!({"operands": ops.iter().map(|t| format!("{t:#x}")).collect::<Vec<_>>(), "n": n, "at_least": robdd::show(&al)}));
        }
    }
}

fn check_lists(ctx: &mut Ctx, sp: &Space<usize>, l: &[u64], r: &[u64]) {
    let k = sp.k;
    ctx.begin_case(|| case_lists(k, l, r));
    ctx.count("evaluations", 1);
    ctx.count("distinct_by_construction", 1);
    let lh: Vec<H> = l.iter().map(|t| sp.get(*t)).collect();
    let rh: Vec<H> = r.iter().map(|t| sp.get(*t)).collect();
    let env = sp.env.clone();
    let key = || format!("{TAG} api k={k}: lists {:?} vs {:?}", l.iter().map(|t| format!("{t:#x}")).collect::<Vec<_>>(), r.iter().map(|t| format!("{t:#x}")).collect::<Vec<_>>());
    match guarded(|| [env.count_leq(&lh, &rh), env.count_lt(&lh, &rh), env.count_geq(&lh, &rh), env.count_gt(&lh, &rh), env.count_eq(&lh, &rh)]) {
        Err(p) => ctx.violation(key(), format!("list comparison panicked: {p}"), case_lists(k, l, r)),
        Ok(res) => {
            let mut c = vec![];
            for (h, op) in res.iter().zip([Cmp::AtMost, Cmp::LessThan, Cmp::AtLeast, Cmp::MoreThan, Cmp::Exactly]) {
                let mut want = 0u64;
                for a in 0..(1usize << k) {
                    if cmp_holds(op, count_at(l, a) as u128, count_at(r, a) as u128) {
                        want |= 1 << a;
                    }
                }
                match sp.tt(h) {
                    Err(m) => c.push(m),
                    Ok(t) if t != want => c.push(format!("{:?} is true under {t:#x}, comparing the two counts gives {want:#x}", op)),
                    _ => {}
                }
            }
            if !c.is_empty() {
                ctx.violation(key(), c.join("; "), case_lists(k, l, r));
            }
        }
    }
}

fn api_sweep(ctx: &mut Ctx, k: usize, maxlist: usize, ll: usize, rl: usize) {
    let sp = match Space::<usize>::by_interning(&syms_for(k)) {
        Ok(s) => s,
        Err(e) => {
            ctx.violation(format!("{TAG} building operands"), e, case_const(k, &[], 0));
            return;
        }
    };
    let nf = sp.nfun();
    let mut idx = 0u64;
    for len in 0..=maxlist {
        let mut todo: Vec<Vec<u64>> = vec![];
        for_each_seq(nf, len, &mut |_, d| {
            idx += 1;
            if ctx.mine(idx) {
                todo.push(d.iter().map(|x| *x as u64).collect());
            }
        });
        for ops in todo {
            for n in -2..=(maxlist as i64 + 2) {
                check_const(ctx, &sp, &ops, n);
            }
            if len <= 2 {
                // admissible extremes: n +/- len does not overflow
                for n in [i64::MIN + len as i64, i64::MIN + len as i64 + 1, i64::MAX - len as i64, i64::MAX - len as i64 - 1] {
                    check_const(ctx, &sp, &ops, n);
                }
            }
        }
    }
    for a in 0..=ll {
        for b in 0..=rl {
            let mut todo: Vec<Vec<u64>> = vec![];
            for_each_seq(nf, a + b, &mut |_, d| {
                idx += 1;
                if ctx.mine(idx) {
                    todo.push(d.iter().map(|x| *x as u64).collect());
                }
            });
            for ops in todo {
                check_lists(ctx, &sp, &ops[..a], &ops[a..]);
            }
        }
    }
}


/// longer lists than the complete sweeps reach: 6 variables with gaps, a pool of 15 operand
/// functions (literals, negations, three composites), lists of length 5..9 drawn as
/// arithmetic progressions through the pool (every start x four strides), every bound
/// -1..L+1; list-vs-list with 3..5 operands on each side
fn long_lists(ctx: &mut Ctx) {
    let syms = [1usize, 4, 6, 9, 12, 20];
    let sp = Space::<usize>::empty(&syms);
    let k = 6;
    let v: Vec<u64> = (0..k).map(|i| crate::refl::var_tt(k, i)).collect();
    let mut pool_tt: Vec<u64> = vec![];
    for x in &v {
        pool_tt.push(*x);
    }
    for x in &v {
        pool_tt.push(!*x);
    }
    pool_tt.push(v[0] & v[1]);
    pool_tt.push(v[2] | v[3]);
    pool_tt.push(v[4] ^ v[5]);
    let pool: Vec<H> = pool_tt.iter().map(|t| sp.intern(&sp.canon(*t))).collect();
    let env = sp.env.clone();
    let mut idx = 0u64;
    let list_at = |start: usize, stride: usize, len: usize| -> Vec<usize> { (0..len).map(|i| (start + stride * i) % pool.len()).collect() };
    for len in 5..=9usize {
        for start in 0..pool.len() {
            for stride in [1usize, 2, 4, 7] {
                idx += 1;
                if !ctx.mine(idx) {
                    continue;
                }
                let ix = list_at(start, stride, len);
                let hs: Vec<H> = ix.iter().map(|i| pool[*i].clone()).collect();
                let tts: Vec<u64> = ix.iter().map(|i| pool_tt[*i]).collect();
                for n in -1..=(len as i64 + 1) {
                    let case = json!({"part": "long", "list": ix, "n": n});
                    ctx.begin_case(|| case.clone());
                    ctx.count("evaluations", 1);
                    ctx.count("long_list_cases", 1);
                    ctx.count("distinct_by_construction", 1);
                    let key = format!("{TAG} api 6 variables: list of {len} operands (pool indexes {:?}) bound {n}", ix);
                    match guarded(|| (env.aln(&hs, n), env.amn(&hs, n), env.exn(&hs, n))) {
                        Err(p) => ctx.violation(key, format!("counting panicked: {p}"), case),
                        Ok((al, am, ex)) => {
                            let mut c = vec![];
                            for (name, h, f) in [("at-least", &al, 0), ("at-most", &am, 1), ("exactly", &ex, 2)] {
                                let mut want = 0u64;
                                for a in 0..64usize {
                                    let cnt = count_at(&tts, a);
                                    if match f {
                                        0 => cnt >= n as i128,
                                        1 => cnt <= n as i128,
                                        _ => cnt == n as i128,
                                    } {
                                        want |= 1 << a;
                                    }
                                }
                                match sp.tt(h) {
                                    Err(m) => c.push(m),
                                    Ok(t) if t != want => c.push(format!("{name}-{n} is true under {t:#x}, counting gives {want:#x}")),
                                    _ => {}
                                }
                            }
                            if !c.is_empty() {
                                ctx.violation(key, c.join("; "), case);
                            }
                        }
                    }
                }
            }
        }
    }
    for ll in 3..=5usize {
        for rl in 3..=5usize {
            for ls in 0..pool.len() {
                for rs in (0..pool.len()).step_by(2) {
                    idx += 1;
                    if !ctx.mine(idx) {
                        continue;
                    }
                    let (li, ri) = (list_at(ls, 2, ll), list_at(rs, 7, rl));
                    let case = json!({"part": "long-lists", "left": li, "right": ri});
                    ctx.begin_case(|| case.clone());
                    ctx.count("evaluations", 1);
                    ctx.count("long_list_cases", 1);
                    ctx.count("distinct_by_construction", 1);
                    let lh: Vec<H> = li.iter().map(|i| pool[*i].clone()).collect();
                    let rh: Vec<H> = ri.iter().map(|i| pool[*i].clone()).collect();
                    let lt: Vec<u64> = li.iter().map(|i| pool_tt[*i]).collect();
                    let rt: Vec<u64> = ri.iter().map(|i| pool_tt[*i]).collect();
                    let key = format!("{TAG} api 6 variables: lists {:?} vs {:?} (pool indexes)", li, ri);
                    match guarded(|| [env.count_leq(&lh, &rh), env.count_lt(&lh, &rh), env.count_geq(&lh, &rh), env.count_gt(&lh, &rh), env.count_eq(&lh, &rh)]) {
                        Err(p) => ctx.violation(key, format!("list comparison panicked: {p}"), case),
                        Ok(res) => {
                            let mut c = vec![];
                            for (h, op) in res.iter().zip([Cmp::AtMost, Cmp::LessThan, Cmp::AtLeast, Cmp::MoreThan, Cmp::Exactly]) {
                                let mut want = 0u64;
                                for a in 0..64usize {
                                    if cmp_holds(op, count_at(&lt, a) as u128, count_at(&rt, a) as u128) {
                                        want |= 1 << a;
                                    }
                                }
                                match sp.tt(h) {
                                    Err(m) => c.push(m),
                                    Ok(t) if t != want => c.push(format!("{:?} is true under {t:#x}, comparing the counts gives {want:#x}", op)),
                                    _ => {}
                                }
                            }
                            if !c.is_empty() {
                                ctx.violation(key, c.join("; "), case);
                            }
                        }
                    }
                }
            }
        }
    }
}

fn counting_alpha() -> Alpha {
    let s = |x: &str| x.to_string();
    Alpha { leaves: vec![Ast::True, Ast::False, Ast::var("a"), Ast::var("b"), Ast::var("c")], not: true, bins: vec![Bin::And, Bin::ImpliesInv], ite: false, cmps: ALL_CMPS.to_vec(), nums: vec![s("0"), s("1"), s("2"), s("3"), s("4")], cv: true, max_list: 3, ..Default::default() }
}

fn has_count(a: &Ast) -> bool {
    match a {
        Ast::CC(..) | Ast::CV(..) => true,
        Ast::Not(x) => has_count(x),
        Ast::Bin(_, l, r) => has_count(l) || has_count(r),
        _ => false,
    }
}

fn lean_alpha() -> Alpha {
    let s = |x: &str| x.to_string();
    Alpha { leaves: vec![Ast::True, Ast::var("a"), Ast::var("b")], not: true, bins: vec![Bin::And], ite: false, cmps: ALL_CMPS.to_vec(), nums: vec![s("1"), s("2")], cv: true, max_list: 3, ..Default::default() }
}

fn stream_texts(ctx: &mut Ctx, alpha: Alpha, from: usize, upto: usize, idx: &mut u64, all_renderings_upto: usize) {
    let mut g = Gen::new(alpha);
    for size in from..=upto {
        let mut todo = vec![];
        let flush = |ctx: &mut Ctx, todo: &mut Vec<(Ast, u64)>| {
            for (a, i) in todo.drain(..) {
                if !has_count(&a) {
                    continue;
                }
                let texts = if size > all_renderings_upto { vec![refl::pp(&a, refl::MINIMAL)] } else { renderings(&a, i, false) };
                for text in texts {
                    if refl::parse(&text).as_ref() != Ok(&a) {
                        panic!("machinery: round trip failed for {text}");
                    }
                    if check_text(ctx, TAG, &a, &text).is_some() {
                        ctx.distinct(&text);
                        ctx.count("counting_texts", 1);
                    }
                }
            }
        };
        g.stream(size, &mut |a| {
            *idx += 1;
            if ctx.mine(*idx) {
                todo.push((a, *idx));
            }
            if todo.len() > 4096 {
                flush(ctx, &mut todo);
            }
        });
        flush(ctx, &mut todo);
    }
}

fn text_sweep(ctx: &mut Ctx) {
    let mut idx = 0u64;
    // rich alphabet (5 leaves, constants 0..4, list-vs-list, lists <= 3) completely up to 3 nodes
    // (an empty-list comparison is a 1-node formula, so 3 nodes already nest counts in counts);
    // lean alphabet one (two) sizes deeper
    stream_texts(ctx, counting_alpha(), 1, 3, &mut idx, 3);
    stream_texts(ctx, lean_alpha(), 4, if ctx.thorough() { 5 } else { 4 }, &mut idx, 0);
    // extreme constants: accepted => exactly that number; not representable => Err
    let consts = ["9223372036854775805", "9223372036854775806", "9223372036854775807", "9223372036854775808", "9223372036854775809", "18446744073709551614", "18446744073709551615", "18446744073709551616", "340282366920938463463374607431768211456"];
    let lists: Vec<Vec<Ast>> = vec![vec![], vec![Ast::var("a")], vec![Ast::var("a"), Ast::var("b")], vec![Ast::var("a"), Ast::var("a")], vec![Ast::True, Ast::var("b")]];
    for c in consts {
        for op in ALL_CMPS {
            for l in &lists {
                idx += 1;
                if !ctx.mine(idx) {
                    continue;
                }
                let a = Ast::CC(op, l.clone(), c.to_string());
                let text = refl::pp(&a, refl::MINIMAL);
                ctx.count("extreme_constants", 1);
                if c.parse::<usize>().is_ok() {
                    check_text(ctx, TAG, &a, &text);
                } else {
                    ctx.begin_case(|| text_case(&text));
                    ctx.count("evaluations", 1);
                    match crate::conv::impl_parse(&text) {
                        crate::conv::ImplParse::Ok(_) => ctx.violation(format!("{TAG} text: {text}"), "a constant that does not fit the number type was accepted (with some other value)".into(), text_case(&text)),
                        crate::conv::ImplParse::Panic(p) => ctx.violation(format!("{TAG} text: {text}"), format!("parser panicked: {p}"), text_case(&text)),
                        _ => {}
                    }
                }
            }
        }
    }
}

/// list-vs-list comparisons with up to three operands per side over a pool of five operand
/// functions (so the same operand can occur with different multiplicities on the two sides),
/// and with up to four per side over a pool of three
fn pool_pairs(ctx: &mut Ctx) {
    let sp = match Space::<usize>::by_interning(&syms_for(2)) {
        Ok(s) => s,
        Err(e) => {
            ctx.violation(format!("{TAG} building operands"), e, case_const(2, &[], 0));
            return;
        }
    };
    let (a, b) = (sp.var_tt(0), sp.var_tt(1));
    let mut idx = 1u64 << 40;
    for (pool, maxlen) in [(vec![a, b, !a & sp.full, a & b, sp.full], 3usize), (vec![a, b, !a & sp.full], 4)] {
        let lists: Vec<Vec<u64>> = crate::enumerate::lists_upto(pool.len(), maxlen).into_iter().map(|l| l.into_iter().map(|i| pool[i]).collect()).collect();
        for l in &lists {
            for r in &lists {
                idx += 1;
                if ctx.mine(idx) {
                    check_lists(ctx, &sp, l, r);
                    ctx.count("pool_list_pairs", 1);
                }
            }
        }
    }
}

/// lists of 17 and 18 distinct variables (beyond a machine-word nibble / any 16-entry table):
/// every kind of bound at the interesting positions; judged on a family of assignments (the
/// all-false, all-true, every single-one, every single-zero and every prefix assignment)
fn very_long_lists(ctx: &mut Ctx) {
    let mut idx = 1u64 << 42;
    for len in [17usize, 18] {
        for (kind, name) in [(0usize, "aln"), (1, "amn"), (2, "exn")] {
            for n in [0i64, 1, 2, 8, len as i64 - 1, len as i64, len as i64 + 1] {
                idx += 1;
                if !ctx.mine(idx) {
                    continue;
                }
                let case = json!({"part": "very-long", "len": len, "kind": kind, "n": n});
                ctx.begin_case(|| case.clone());
                ctx.count("evaluations", 1);
                ctx.count("very_long_list_cases", 1);
                let key = format!("{TAG} {name}([x0..x{}], {n})", len - 1);
                let env = BDDEnv::<usize>::new();
                let ops: Vec<Rc<BDD<usize>>> = (0..len).map(|i| env.var(2 * i + 1)).collect();
                let r = crate::runner::guarded(|| match kind {
                    0 => env.aln(&ops, n),
                    1 => env.amn(&ops, n),
                    _ => env.exn(&ops, n),
                });
                let d = match r {
                    Ok(d) => d,
                    Err(p) => {
                        ctx.violation(key, format!("panicked: {p}"), case);
                        continue;
                    }
                };
                let mut assignments: Vec<Vec<bool>> = vec![vec![false; len], vec![true; len]];
                for i in 0..len {
                    let mut a = vec![false; len];
                    a[i] = true;
                    assignments.push(a.clone());
                    assignments.push(a.iter().map(|x| !x).collect());
                    assignments.push((0..len).map(|j| j <= i).collect());
                    assignments.push((0..len).map(|j| j % 2 == 0 && j <= i).collect());
                }
                for a in assignments {
                    let cnt = a.iter().filter(|x| **x).count() as i64;
                    let want = match kind {
                        0 => cnt >= n,
                        1 => cnt <= n,
                        _ => cnt == n,
                    };
                    let mut node = d.as_ref();
                    let got = loop {
                        match node {
                            BDD::True => break true,
                            BDD::False => break false,
                            BDD::Choice(t, v, f) => node = if a[(*v - 1) / 2] { t.as_ref() } else { f.as_ref() },
                        }
                    };
                    if got != want {
                        ctx.violation(key, format!("with {cnt} of the {len} operands true the result is {got}, the definition gives {want}"), case);
                        break;
                    }
                }
            }
        }
    }
}

fn run(ctx: &mut Ctx) {
    let th = ctx.thorough();
    pool_pairs(ctx);
    very_long_lists(ctx);
    api_sweep(ctx, 2, 4, if th { 3 } else { 2 }, 2);
    api_sweep(ctx, 3, 2, 1, 1);
    long_lists(ctx);
    text_sweep(ctx);
}

fn replay(ctx: &mut Ctx, c: &Value) {
    if c["part"].as_str() == Some("very-long") {
        let mut c2 = Ctx::new("C05", ctx.tier, ctx.seed, 0, 1);
        very_long_lists(&mut c2);
        for v in c2.violations {
            if v.replay == *c {
                ctx.violation(v.key, v.what, v.replay);
            }
        }
        return;
    }
    let u64s = |v: &Value| -> Vec<u64> { v.as_array().map(|a| a.iter().map(|x| x.as_u64().unwrap_or(0)).collect()).unwrap_or_default() };
    match c["part"].as_str() {
        Some("long") | Some("long-lists") => {
            // the structured family is small: re-run it and keep the recorded case
            let mut c2 = Ctx::new("C05", ctx.tier, ctx.seed, 0, 1);
            long_lists(&mut c2);
            for v in c2.violations {
                if v.replay == *c {
                    ctx.violation(v.key, v.what, v.replay);
                }
            }
        }
        Some("text") => {
            let text = c["text"].as_str().unwrap_or("");
            // constants beyond the number type: the reference accepts, the implementation must refuse
            if refl::lex(text).iter().any(|t| matches!(t, refl::Tok::Num(n) if n.parse::<usize>().is_err())) {
                if let crate::conv::ImplParse::Ok(_) = crate::conv::impl_parse(text) {
                    ctx.violation(format!("{TAG} text: {text}"), "a constant that does not fit the number type was accepted".into(), c.clone());
                }
            } else {
                replay_text(ctx, TAG, c);
            }
        }
        Some("lists") => {
            let k = c["k"].as_u64().unwrap_or(2) as usize;
            if let Ok(sp) = Space::<usize>::by_interning(&syms_for(k)) {
                check_lists(ctx, &sp, &u64s(&c["left"]), &u64s(&c["right"]));
            }
        }
        _ => {
            let k = c["k"].as_u64().unwrap_or(2) as usize;
            if let Ok(sp) = Space::<usize>::by_interning(&syms_for(k)) {
                check_const(ctx, &sp, &u64s(&c["operands"]), c["n"].as_i64().unwrap_or(0));
            }
        }
    }
}
