use crate::runner::Engine;

pub mod c08;
pub mod c12;

pub fn engines() -> Vec<&'static Engine> {
    vec![&c08::ENGINE, &c12::ENGINE]
}

pub fn engine(id: &str) -> Option<&'static Engine> {
    engines().into_iter().find(|e| e.prop == id)
}
