use crate::runner::Engine;

pub mod c01;
pub mod c02;
pub mod c03;
pub mod c04;
pub mod c05;
pub mod c06;
pub mod c07;
pub mod c08;
pub mod c09;
pub mod c10;
pub mod c11;
pub mod c12;
pub mod c13;
pub mod c14;
pub mod c15;
pub mod c16;
pub mod c17;
pub mod c18;
pub mod c19;
pub mod c20;

pub fn engines() -> Vec<&'static Engine> {
    vec![&c01::ENGINE, &c02::ENGINE, &c03::ENGINE, &c04::ENGINE, &c05::ENGINE, &c06::ENGINE, &c07::ENGINE, &c08::ENGINE, &c09::ENGINE, &c10::ENGINE, &c11::ENGINE, &c12::ENGINE, &c13::ENGINE, &c14::ENGINE, &c15::ENGINE, &c16::ENGINE, &c17::ENGINE, &c18::ENGINE, &c19::ENGINE, &c20::ENGINE]
}

pub fn engine(id: &str) -> Option<&'static Engine> {
    engines().into_iter().find(|e| e.prop == id)
}
