//! C07 — model extraction returns one genuine satisfying cube.

use crate::cli::{parse_table, project_ref, Cell, Inv};
use crate::formulas::cli_formula_set;
use crate::refl::{self, depends_tt};
use crate::robdd;
use crate::runner::{guarded, Ctx, Engine};
use crate::space::Space;
use rsbdd::bdd::{BDDEnv, BDD};
use serde_json::{json, Value};
use std::rc::Rc;

pub static ENGINE: Engine = Engine {
    prop: "C07",
    level: "exploration",
    rule: "every Boolean function f over 4 ordered variables with gaps (65536, interned canonical diagrams) and every function over 3: m = model(f) is False iff f is unsatisfiable, else a single cube (every test has exactly one False child, chain ends in True) whose literals are variables f semantically depends on and whose assignments all satisfy f; infer(m, v) and infer(f, v) for every variable (incl. one outside) are (true,true) iff the diagram forces v; all of it also on diagrams that were never interned in the environment asked. Structured families k=5..8 exhaustively (all thresholds, parities, every cube and clause over <=5 variables). CLI: `rsbdd --evaluate=<f> -m -t` on every formula <= 3 (4) nodes of the CLI alphabet: exactly one True row for satisfiable formulas, none otherwise, and the row satisfies the reference; with -c t|f in addition, the row satisfies the diagram after choices were dropped. distinct = distinct (f, model) pairs + distinct CLI outputs",
    assumptions: &["truth tables / cube shape read by independent walkers", "k <= 4 exhaustively; larger k only structured families"],
    max_shards: 64,
    run,
    replay,
};

const TAG: &str = "C07";
type H = Rc<BDD<usize>>;

fn syms_for(k: usize) -> Vec<usize> {
    if k == 3 {
        vec![2, 5, 7]
    } else {
        vec![0, 3, 4, 9]
    }
}

fn check_f(ctx: &mut Ctx, sp: &Space<usize>, tt: u64, foreign: bool) {
    let k = sp.k;
    let case = json!({"part": "api", "k": k, "f": tt, "foreign": foreign});
    ctx.begin_case(|| case.clone());
    ctx.count("evaluations", 1);
    let key = format!("{TAG} api syms={:?}{}: model of f={tt:#x}", sp.syms, if foreign { " (diagram not interned in this environment)" } else { "" });
    // a foreign diagram is handed over as a short-lived copy: the next case's copy reuses its address
    let f = if foreign { robdd::deep_copy(&sp.get(tt)) } else { sp.get(tt) };
    let env = sp.env.clone();
    let m = match guarded(|| env.model(f.clone())) {
        Err(p) => {
            ctx.violation(key, format!("model panicked: {p}"), case);
            return;
        }
        Ok(m) => m,
    };
    ctx.distinct(&(k, tt, robdd::show(&m)));
    let mut c = vec![];
    if (tt == 0) != m.is_false() {
        c.push(format!("model is {} but f is {}", if m.is_false() { "False" } else { "not False" }, if tt == 0 { "unsatisfiable" } else { "satisfiable" }));
    }
    let mut lits: Vec<(usize, bool)> = vec![];
    if !m.is_false() {
        match robdd::as_cube(&m) {
            None => c.push(format!("model {} is not a single conjunction of literals", robdd::show(&m))),
            Some(l) => {
                lits = l;
                for (v, _) in &lits {
                    match sp.pos(v) {
                        Some(i) if depends_tt(k, i, tt) => {}
                        _ => c.push(format!("model mentions variable {v} which f does not depend on")),
                    }
                }
                match sp.tt(&m) {
                    Ok(mt) if mt & !tt != 0 => c.push(format!("an assignment satisfying the model {} does not satisfy f", robdd::show(&m))),
                    Err(e) => c.push(e),
                    _ => {}
                }
            }
        }
    }
    // infer on the model
    for v in sp.syms.iter().cloned().chain([11usize]) {
        match guarded(|| env.infer(m.clone(), v)) {
            Err(p) => c.push(format!("infer panicked: {p}")),
            Ok(ans) => {
                let forced = m.is_false() || lits.contains(&(v, true));
                if (ans == (true, true)) != forced {
                    c.push(format!("infer(model, {v}) = {:?} but the model {} variable {v} to be true", ans, if forced { "forces" } else { "does not force" }));
                }
            }
        }
    }
    // infer on f itself: (true, true) exactly when f forces v
    for (i, v) in sp.syms.iter().cloned().enumerate().chain([(usize::MAX, 11usize)]) {
        match guarded(|| env.infer(f.clone(), v)) {
            Err(p) => c.push(format!("infer(f, {v}) panicked: {p}")),
            Ok(ans) => {
                let forced = if i == usize::MAX { tt == 0 } else { tt & !sp.var_tt(i) == 0 };
                if (ans == (true, true)) != forced {
                    c.push(format!("infer(f, {v}) = {:?} but f {} variable {v} to be true", ans, if forced { "forces" } else { "does not force" }));
                }
            }
        }
    }
    if !c.is_empty() {
        c.truncate(4);
        ctx.violation(key, c.join("; "), case);
    }
    ctx.sample(|| json!({"f": robdd::show(&f), "model": robdd::show(&m)}));
}

fn eval_bdd(b: &BDD<usize>, asg: usize) -> bool {
    // variable v is true iff bit v of asg
    let mut n = b;
    loop {
        match n {
            BDD::True => return true,
            BDD::False => return false,
            BDD::Choice(t, v, f) => n = if (asg >> v) & 1 == 1 { t } else { f },
        }
    }
}

fn check_big(ctx: &mut Ctx, env: &BDDEnv<usize>, k: usize, f: H, name: String) {
    let case = json!({"part": "family", "name": name});
    ctx.begin_case(|| case.clone());
    ctx.count("evaluations", 1);
    ctx.count("family_members", 1);
    let key = format!("{TAG} family: {name}");
    let m = match guarded(|| env.model(f.clone())) {
        Err(p) => {
            ctx.violation(key, format!("model panicked: {p}"), case);
            return;
        }
        Ok(m) => m,
    };
    ctx.distinct(&(name.clone(), robdd::show(&m)));
    let sat = (0..(1usize << k)).any(|a| eval_bdd(&f, a));
    let mut c = vec![];
    if sat == m.is_false() {
        c.push("model is False iff f is unsatisfiable is violated".to_string());
    }
    if !m.is_false() {
        if robdd::as_cube(&m).is_none() {
            c.push(format!("model {} is not a single cube", robdd::show(&m)));
        }
        for a in 0..(1usize << k) {
            if eval_bdd(&m, a) && !eval_bdd(&f, a) {
                c.push(format!("assignment {a:#b} satisfies the model but not f"));
                break;
            }
        }
        // literals only on variables f depends on
        let mut ls = vec![];
        robdd::labels(&m, &mut ls);
        for v in ls {
            let dep = (0..(1usize << k)).any(|a| eval_bdd(&f, a) != eval_bdd(&f, a ^ (1 << v)));
            if !dep {
                c.push(format!("model mentions variable {v} which f does not depend on"));
            }
        }
    }
    if !c.is_empty() {
        ctx.violation(key, c.join("; "), case);
    }
}

/// diagrams over 64 .. 300 variables (chains of literals ending in a small tail): the model
/// must be a cube over variables of the diagram, and completing it with all-false and with
/// all-true for the other variables must satisfy the diagram (evaluated by walking it)
fn wide_models(ctx: &mut Ctx) {
    let mut idx = 1u64 << 40;
    for n in [64usize, 65, 128, 254, 255, 256, 257, 300, 600] {
        for shape in 0..6usize {
            idx += 1;
            if !ctx.mine(idx) {
                continue;
            }
            let case = json!({"part": "wide", "n": n, "shape": shape});
            ctx.begin_case(|| case.clone());
            ctx.count("evaluations", 1);
            ctx.count("wide_models", 1);
            let key = format!("{TAG} model of a chain over {n} variables (shape {shape})");
            let env = BDDEnv::<usize>::new();
            let r = guarded(|| {
                let lit = |i: usize| if shape % 3 == 1 && i % 3 == 2 { env.not(env.var(i)) } else { env.var(i) };
                let tail = match shape % 3 {
                    2 => env.or(env.var(n), env.var(n + 1)),
                    _ => env.mk_const(shape < 3),
                };
                let f = (0..n).rev().fold(tail, |acc, i| if shape < 3 { env.and(lit(i), acc) } else { env.or(lit(i), acc) });
                let m = env.model(f.clone());
                (f, m)
            });
            let (f, m) = match r {
                Ok(x) => x,
                Err(p) => {
                    ctx.violation(key, format!("panicked: {p}"), case);
                    continue;
                }
            };
            let eval = |d: &BDD<usize>, a: &dyn Fn(usize) -> bool| -> bool {
                let mut n = d;
                loop {
                    match n {
                        BDD::True => return true,
                        BDD::False => return false,
                        BDD::Choice(t, v, e) => n = if a(*v) { t.as_ref() } else { e.as_ref() },
                    }
                }
            };
            // every one of these diagrams is satisfiable
            if m.is_false() {
                ctx.violation(key, "model is the false leaf although the diagram is satisfiable".to_string(), case);
                continue;
            }
            let Some(lits) = robdd::as_cube(&m) else {
                ctx.violation(key, "model is not a single conjunction of literals".to_string(), case);
                continue;
            };
            let mut support = vec![];
            robdd::labels(&f, &mut support);
            if let Some((v, _)) = lits.iter().find(|(v, _)| !support.contains(v)) {
                ctx.violation(key, format!("the model mentions variable {v}, on which the diagram does not depend"), case);
                continue;
            }
            for rest in [false, true] {
                let a = |v: usize| lits.iter().find(|(x, _)| *x == v).map(|(_, p)| *p).unwrap_or(rest);
                if !eval(&f, &a) {
                    ctx.violation(key, format!("an assignment satisfying the model (other variables {rest}) does not satisfy the diagram"), case);
                    break;
                }
            }
        }
    }
}

fn family(ctx: &mut Ctx, only: Option<&str>) {
    let mut idx = 0u64;
    for k in 5..=8usize {
        let env = BDDEnv::<usize>::new();
        let vars: Vec<H> = (0..k).map(|i| env.var(i)).collect();
        let mut members: Vec<(String, H)> = vec![];
        for t in 0..=(k as i64 + 1) {
            members.push((format!("k={k} at-least-{t}"), env.aln(&vars, t)));
            members.push((format!("k={k} at-most-{t}"), env.amn(&vars, t)));
            members.push((format!("k={k} exactly-{t}"), env.exn(&vars, t)));
        }
        let mut par = env.mk_const(false);
        for v in &vars {
            par = env.xor(par, v.clone());
        }
        members.push((format!("k={k} odd parity"), par.clone()));
        members.push((format!("k={k} even parity"), env.not(par)));
        if k == 5 {
            // every cube and every clause over 5 variables (3^5 each)
            for code in 0..243usize {
                let mut c = code;
                let mut cube = env.mk_const(true);
                let mut clause = env.mk_const(false);
                for v in vars.iter().rev() {
                    let d = c % 3;
                    c /= 3;
                    if d == 1 {
                        cube = env.and(v.clone(), cube);
                        clause = env.or(v.clone(), clause);
                    } else if d == 2 {
                        cube = env.and(env.not(v.clone()), cube);
                        clause = env.or(env.not(v.clone()), clause);
                    }
                }
                members.push((format!("k=5 cube #{code}"), cube));
                members.push((format!("k=5 clause #{code}"), clause));
            }
        }
        for (name, f) in members {
            idx += 1;
            if only.map(|o| o == name).unwrap_or_else(|| ctx.mine(idx)) {
                check_big(ctx, &env, k, f, name);
            }
        }
    }
}

/// `-c t|f -m -t`: the model is taken of the diagram AFTER choices were dropped, so the one
/// satisfying row must satisfy g = retain(f, c) (g computed through the library API)
fn check_cli_retained(ctx: &mut Ctx, text: &str, c_true: bool) {
    let case = json!({"part": "cli-c", "text": text, "c_true": c_true});
    ctx.begin_case(|| case.clone());
    ctx.count("evaluations", 1);
    ctx.count("cli_runs", 1);
    let Ok(a) = refl::parse(text) else { return };
    let names = a.names();
    if refl::Sem::new(&names).eval_closed(&a).is_none() {
        return;
    }
    let crate::conv::ImplParse::Ok(p) = crate::conv::impl_parse(text) else { return };
    let Ok(f) = crate::conv::impl_eval(&p) else { return };
    let filter = if c_true { rsbdd::TruthTableEntry::True } else { rsbdd::TruthTableEntry::False };
    let env = p.env.clone();
    let Ok(g) = guarded(|| env.retain_choice_bottom_up(f, filter)) else { return };
    let Ok(gt) = crate::conv::tt_named(&g, &names) else { return };
    let cval = if c_true { "t" } else { "f" };
    let r = Inv::new(text, &["-c", cval, "-m", "-t"]).run();
    let key = format!("{TAG} rsbdd -c {cval} -m -t: {text}");
    if !r.run.ok() {
        ctx.violation(key, format!("rsbdd failed: {} {}", r.run.describe(), r.run.err_tail()), case);
        return;
    }
    ctx.distinct(&(c_true, &r.run.stdout));
    let t = match parse_table(&r.run.out()) {
        Err(e) => {
            ctx.violation(key, format!("unreadable table: {e}"), case);
            return;
        }
        Ok(t) => t,
    };
    let true_rows: Vec<&Vec<Cell>> = t.rows.iter().filter(|(_, r)| *r).map(|(c, _)| c).collect();
    if (gt != 0) != (true_rows.len() == 1) || (gt == 0 && !true_rows.is_empty()) {
        ctx.violation(key, format!("{} satisfying rows printed; the diagram after dropping choices is {}", true_rows.len(), if gt == 0 { "unsatisfiable" } else { "satisfiable" }), case);
        return;
    }
    if gt != 0 {
        match project_ref(gt, &names, &t.header) {
            Err(e) => ctx.violation(key, e, case),
            Ok(refv) => {
                for asg in crate::cli::row_assignments(true_rows[0]) {
                    if !refv[asg] {
                        ctx.violation(key, format!("the printed model row covers assignment {asg:#b} of {:?}, which does not satisfy the diagram the model was taken of", t.header), case);
                        return;
                    }
                }
            }
        }
    }
}

fn check_cli(ctx: &mut Ctx, text: &str) {
    let case = json!({"part": "cli", "text": text});
    ctx.begin_case(|| case.clone());
    ctx.count("evaluations", 1);
    ctx.count("cli_runs", 1);
    let Ok(a) = refl::parse(text) else { return };
    let names = a.names();
    let Some(want) = refl::Sem::new(&names).eval_closed(&a) else { return };
    let r = Inv::new(text, &["-m", "-t"]).run();
    let key = format!("{TAG} rsbdd -m -t: {text}");
    if !r.run.ok() {
        ctx.violation(key, format!("rsbdd failed: {} {}", r.run.describe(), r.run.err_tail()), case);
        return;
    }
    ctx.distinct(&r.run.stdout);
    let t = match parse_table(&r.run.out()) {
        Err(e) => {
            ctx.violation(key, format!("unreadable table: {e}"), case);
            return;
        }
        Ok(t) => t,
    };
    let true_rows: Vec<&Vec<Cell>> = t.rows.iter().filter(|(_, r)| *r).map(|(c, _)| c).collect();
    let sat = want != 0;
    if sat && true_rows.len() != 1 {
        ctx.violation(key, format!("{} satisfying rows printed for a satisfiable formula (expected exactly one)", true_rows.len()), case);
        return;
    }
    if !sat && !true_rows.is_empty() {
        ctx.violation(key, "a satisfying row was printed for an unsatisfiable formula".into(), case);
        return;
    }
    if sat {
        match project_ref(want, &names, &t.header) {
            Err(e) => ctx.violation(key, e, case),
            Ok(refv) => {
                for asg in crate::cli::row_assignments(true_rows[0]) {
                    if !refv[asg] {
                        ctx.violation(key, format!("the printed model row covers assignment {asg:#b} of {:?}, which does not satisfy the formula", t.header), case);
                        return;
                    }
                }
            }
        }
    }
}

fn run(ctx: &mut Ctx) {
    for k in [3usize, 4] {
        match Space::<usize>::by_interning(&syms_for(k)) {
            Err(e) => ctx.violation(format!("{TAG} building operands"), e, json!({"part": "api", "k": k, "f": 0})),
            Ok(sp) => {
                for tt in 0..sp.nfun() as u64 {
                    if ctx.mine(tt) {
                        check_f(ctx, &sp, tt, false);
                    }
                }
            }
        }
        // the same on diagrams that were never interned in the environment asked
        let spf = Space::<usize>::by_foreign(&syms_for(k));
        for tt in 0..spf.nfun() as u64 {
            if ctx.mine(tt + 1) {
                check_f(ctx, &spf, tt, true);
            }
        }
    }
    family(ctx, None);
    wide_models(ctx);
    let set = cli_formula_set(if ctx.thorough() { 4 } else { 3 });
    for (i, (a, _, _)) in set.iter().enumerate() {
        if ctx.mine(i as u64) {
            check_cli(ctx, &refl::pp(a, refl::MINIMAL));
            if a.size() <= 3 {
                check_cli_retained(ctx, &refl::pp(a, refl::MINIMAL), true);
                check_cli_retained(ctx, &refl::pp(a, refl::MINIMAL), false);
            }
        }
    }
    crate::cli::cleanup_scratch();
}

fn replay(ctx: &mut Ctx, c: &Value) {
    match c["part"].as_str() {
        Some("cli-c") => {
            check_cli_retained(ctx, c["text"].as_str().unwrap_or(""), c["c_true"].as_bool().unwrap_or(true));
            crate::cli::cleanup_scratch();
        }
        Some("cli") => {
            check_cli(ctx, c["text"].as_str().unwrap_or(""));
            crate::cli::cleanup_scratch();
        }
        Some("family") => family(ctx, c["name"].as_str()),
        Some("wide") => {
            let mut c2 = Ctx::new("C07", ctx.tier, ctx.seed, 0, 1);
            wide_models(&mut c2);
            for v in c2.violations {
                if v.replay == *c {
                    ctx.violation(v.key, v.what, v.replay);
                }
            }
        }
        _ => {
            let k = c["k"].as_u64().unwrap_or(4) as usize;
            if c["foreign"].as_bool().unwrap_or(false) {
                check_f(ctx, &Space::<usize>::by_foreign(&syms_for(k)), c["f"].as_u64().unwrap_or(0), true);
            } else if let Ok(sp) = Space::<usize>::by_interning(&syms_for(k)) {
                check_f(ctx, &sp, c["f"].as_u64().unwrap_or(0), false);
            }
        }
    }
}
