//! C02 — canonical form: equivalent functions are represented identically.

use crate::closure::*;
use crate::refl::{depends_tt, exists_tt, forall_tt, full_mask, var_tt};
use crate::robdd;
use crate::runner::{guarded, Ctx, Engine};
use crate::space::Space;
use rsbdd::bdd::{BDDEnv, BDD};
use rsbdd::TruthTableEntry;
use serde_json::{json, Value};
use std::rc::Rc;

pub static ENGINE: Engine = Engine {
    prop: "C02",
    level: "model_checking",
    rule: "oracle = canon(f), a reduced ordered diagram built from the expected truth table with plain BDD::Choice values (no rsbdd function). (1) the complete API closure of C03 and the complete evaluator closure of C01 (k=2,3: every operator incl. quantifier lists and counting on every operand tuple): every transition result must be literally == canon, hash-equal, ordered and reduced, is_true/is_false iff valid/unsatisfiable; (2) every f in F_4 (65536) along seven construction routes (Shannon/ite top-down and bottom-up, DNF, CNF, double negation, xor twice, rename-and-quantify detour) in a shared and in a fresh environment: all routes == canon(f), pairwise ==, equal across environments; (3) `==` between diagrams of two environments holds iff the truth tables agree, for all 256x256 pairs; (4) outputs of model / retain / exists / all / aln / amn / exn on every f in F_4 are canonical for the function they denote. One representative of each of the 222 classes of four-variable functions (under input permutation / input negation / output negation) against ALL 65 536 functions in both operand positions under and / or (every connective in thorough). Thorough tier additionally: COMPLETE operand pairs over F_4 (2^16 x 2^16) for and / or (the connectives with a recursion of their own; VCHECK_PAIRS4_OPS=all for all seven), result compared structurally with canon of the pointwise table; every unary/binary connective on all of F_3 in a BDDEnv<NamedSymbol> whose ids agree in their low 32 bits (both tiers). Deep twins: in one environment, conjunction chains of depth 1..200 continued by five different tails (diagrams that differ only below the chain), each compared node for node with the hand-built chain diagram by the harness's own walker, `==`/hash equal to its recomputation and to the hand-built diagram, and unequal to every other twin. distinct = distinct (route or operator, operands)",
    assumptions: &["canon() and the ordered/reduced walker in harness/src/robdd.rs are the trusted definition of 'reduced ordered'", "k <= 4 variables; orders with gaps (ids 0,3,4,9 / 1,4,6) and NamedSymbol orders"],
    max_shards: 64,
    run,
    replay,
};

const ORACLE: Oracle = Oracle { semantic: false, canonical: true };
const TAG: &str = "C02";
const SYMS4: [usize; 4] = [0, 3, 4, 9];
const DSYM: usize = 6;

fn cof(tt: u64, k: usize, i: usize, val: bool) -> u64 {
    // cofactor as a table over the same k variables (independent of variable i)
    let mut r = 0u64;
    for a in 0..(1usize << k) {
        let b = if val { a | (1 << i) } else { a & !(1 << i) };
        if (tt >> b) & 1 == 1 {
            r |= 1 << a;
        }
    }
    r
}

type H = Rc<BDD<usize>>;

fn shannon_top_down(env: &BDDEnv<usize>, syms: &[usize], tt: u64, level: usize) -> H {
    let k = syms.len();
    if tt == 0 {
        return env.mk_const(false);
    }
    if tt == full_mask(k) {
        return env.mk_const(true);
    }
    let t = shannon_top_down(env, syms, cof(tt, k, level, true), level + 1);
    let e = shannon_top_down(env, syms, cof(tt, k, level, false), level + 1);
    env.ite(env.var(syms[level]), t, e)
}

fn shannon_bottom_up(env: &BDDEnv<usize>, syms: &[usize], tt: u64, level: usize) -> H {
    // expand on the LAST variable first: the condition of every ite is below its branches
    let k = syms.len();
    if tt == 0 {
        return env.mk_const(false);
    }
    if tt == full_mask(k) {
        return env.mk_const(true);
    }
    let i = level;
    let t = shannon_bottom_up(env, syms, cof(tt, k, i, true), level.wrapping_sub(1));
    let e = shannon_bottom_up(env, syms, cof(tt, k, i, false), level.wrapping_sub(1));
    env.ite(env.var(syms[i]), t, e)
}

fn dnf(env: &BDDEnv<usize>, syms: &[usize], tt: u64) -> H {
    let k = syms.len();
    let mut acc = env.mk_const(false);
    for a in 0..(1usize << k) {
        if (tt >> a) & 1 == 1 {
            let mut m = env.mk_const(true);
            for (i, s) in syms.iter().enumerate() {
                let lit = if (a >> i) & 1 == 1 { env.var(*s) } else { env.not(env.var(*s)) };
                m = env.and(m, lit);
            }
            acc = env.or(acc, m);
        }
    }
    acc
}

fn cnf(env: &BDDEnv<usize>, syms: &[usize], tt: u64) -> H {
    let k = syms.len();
    let mut acc = env.mk_const(true);
    for a in 0..(1usize << k) {
        if (tt >> a) & 1 == 0 {
            let mut c = env.mk_const(false);
            // clause false exactly at assignment a; literals from the last variable upwards
            for (i, s) in syms.iter().enumerate().rev() {
                let lit = if (a >> i) & 1 == 1 { env.not(env.var(*s)) } else { env.var(*s) };
                c = env.or(lit, c);
            }
            acc = env.and(c, acc);
        }
    }
    acc
}

fn detour(env: &BDDEnv<usize>, tt: u64) -> H {
    // f' = f with the last variable renamed to a fresh one (id between the 3rd and the 4th),
    // then  exists d # (d <=> x3) & f'
    let syms2 = [SYMS4[0], SYMS4[1], SYMS4[2], DSYM];
    // tt over (x0,x1,x2,d) with d in position 3 has the same bits as tt over (x0,x1,x2,x3)
    let fprime = shannon_top_down(env, &syms2, tt, 0);
    let link = env.eq(env.var(DSYM), env.var(SYMS4[3]));
    env.exists(vec![DSYM], env.and(link, fprime))
}

const ROUTES: [&str; 7] = ["shannon-top-down", "shannon-bottom-up", "dnf", "cnf", "double-negation", "xor-twice", "rename-quantify"];

fn route(env: &BDDEnv<usize>, r: usize, tt: u64) -> H {
    match r {
        0 => shannon_top_down(env, &SYMS4, tt, 0),
        1 => shannon_bottom_up(env, &SYMS4, tt, 3),
        2 => dnf(env, &SYMS4, tt),
        3 => cnf(env, &SYMS4, tt),
        4 => env.not(env.not(shannon_top_down(env, &SYMS4, tt, 0))),
        5 => {
            let v = env.var(SYMS4[(tt % 4) as usize]);
            env.xor(env.xor(dnf(env, &SYMS4, tt), v.clone()), v)
        }
        _ => detour(env, tt),
    }
}

/// Twins that differ only far below the root: in ONE environment, for every depth d, the
/// conjunction x0 & .. & x(d-1) continued by each of five tails over x(d), x(d+1) — built by the
/// engine through `and` / `or` / `not` / `xor`. Every result must be, node for node, the chain
/// diagram constructed here by hand (compared by a walker of this harness, not by the
/// subject's `==`), and the subject's `==` / hash must separate every two twins of one depth
/// (they denote different functions) and identify a twin with its recomputation.
fn deep_twins(ctx: &mut Ctx) {
    for d in [1usize, 2, 3, 5, 7, 8, 9, 10, 12, 15, 16, 17, 24, 31, 32, 33, 40, 64, 65, 100, 200] {
        if !ctx.mine(d as u64) {
            continue;
        }
        let case = json!({"part": "deep-twins", "depth": d});
        ctx.begin_case(|| case.clone());
        ctx.count("deep_twin_depths", 1);
        ctx.count("distinct_by_construction", 1);
        let key = format!("{TAG} twins below depth {d} in one environment");
        let r = guarded(|| {
            let env = Rc::new(BDDEnv::<usize>::new());
            let id = |i: usize| 3 * i + 1;
            let t = || Rc::new(BDD::True);
            let f = || Rc::new(BDD::False);
            let lit = |i: usize, pos: bool| if pos { Rc::new(BDD::Choice(t(), id(i), f())) } else { Rc::new(BDD::Choice(f(), id(i), t())) };
            // expected tails over x(d), x(d+1), built by hand
            let tails_ref: Vec<(&str, H)> = vec![
                ("x(d)", lit(d, true)),
                ("-x(d)", lit(d, false)),
                ("x(d) & x(d+1)", Rc::new(BDD::Choice(lit(d + 1, true), id(d), f()))),
                ("x(d) | x(d+1)", Rc::new(BDD::Choice(t(), id(d), lit(d + 1, true)))),
                ("x(d) ^ x(d+1)", Rc::new(BDD::Choice(lit(d + 1, false), id(d), lit(d + 1, true)))),
            ];
            let build = |k: usize| -> H {
                let (xd, xe) = (env.var(id(d)), env.var(id(d + 1)));
                let tail = match k {
                    0 => xd,
                    1 => env.not(xd),
                    2 => env.and(xd, xe),
                    3 => env.or(xd, xe),
                    _ => env.xor(xd, xe),
                };
                // x0 & (x1 & (.. & tail)), assembled from the bottom so every step is one `and`
                (0..d).rev().fold(tail, |acc, i| env.and(env.var(id(i)), acc))
            };
            let mut c: Vec<String> = vec![];
            let mut got: Vec<H> = vec![];
            for (k, (name, tail)) in tails_ref.iter().enumerate() {
                let want = (0..d).rev().fold(tail.clone(), |acc, i| Rc::new(BDD::Choice(acc, id(i), f())));
                let a = build(k);
                let b = build(k);
                if !robdd::same_by(&a, &want, &|x, y| x == y) {
                    c.push(format!("x0 & .. & x{} & ({name}) is not the chain diagram of that function", d - 1));
                }
                if *a != *b || a.get_hash() != b.get_hash() {
                    c.push(format!("the twin with tail {name} does not compare / hash equal to its recomputation"));
                }
                if *a != *want || a.get_hash() != want.get_hash() {
                    c.push(format!("the twin with tail {name} does not compare / hash equal to the same diagram built outside the environment"));
                }
                got.push(a);
            }
            for i in 0..got.len() {
                for j in 0..i {
                    if *got[i] == *got[j] {
                        c.push(format!("twins with tails {} and {} denote different functions but compare equal", tails_ref[i].0, tails_ref[j].0));
                    }
                }
            }
            c
        });
        match r {
            Err(p) => ctx.violation(key, format!("panicked: {p}"), case),
            Ok(c) if !c.is_empty() => ctx.violation(key, c.into_iter().take(3).collect::<Vec<_>>().join("; "), case),
            Ok(_) => ctx.count("transitions", 10 * (d as u64 + 2)),
        }
    }
}

/// the same function built in two NamedSymbol environments whose symbols agree in id but carry
/// different names: the diagrams compare equal (symbols are identified by id), so they must
/// hash equal as well — and unequal functions must compare unequal
fn renamed_twins(ctx: &mut Ctx) {
    use crate::conv::sym;
    let ids = [2usize, 5, 9];
    let a: Vec<rsbdd::NamedSymbol> = ["x", "y", "z"].iter().zip(ids).map(|(n, i)| sym(n, i)).collect();
    let b: Vec<rsbdd::NamedSymbol> = ["p", "a_much_longer_name", "r'"].iter().zip(ids).map(|(n, i)| sym(n, i)).collect();
    let (Ok(sa), Ok(sb)) = (Space::<rsbdd::NamedSymbol>::by_interning(&a), Space::<rsbdd::NamedSymbol>::by_interning(&b)) else { return };
    for f in 0..256u64 {
        if !ctx.mine(f) {
            continue;
        }
        let case = json!({"part": "renamed-twins", "f": f});
        ctx.begin_case(|| case.clone());
        ctx.count("transitions", 1);
        ctx.count("renamed_twin_functions", 1);
        ctx.count("distinct_by_construction", 1);
        let (da, db) = (sa.get(f), sb.get(f));
        let mut c = vec![];
        if *da != *db {
            c.push("the two diagrams of the same function over symbols with equal ids compare unequal".to_string());
        } else if da.get_hash() != db.get_hash() || crate::runner::fxhash(da.as_ref()) != crate::runner::fxhash(db.as_ref()) {
            c.push("the two diagrams compare equal but hash differently".to_string());
        }
        for g in [f ^ 1, f ^ 0x80, !f & 0xff] {
            if *da == *sb.get(g) {
                c.push(format!("diagrams of the different functions {f:#x} and {g:#x} compare equal"));
            }
        }
        if !c.is_empty() {
            ctx.violation(format!("{TAG} twins with equal ids and different names: f={f:#x}"), c.join("; "), case);
        }
    }
}

fn check_routes(ctx: &mut Ctx, shared: &Space<usize>, tt: u64) {
    let case = json!({"part": "routes", "tt": tt});
    ctx.begin_case(|| case.clone());
    let fresh = Space::<usize>::empty(&SYMS4);
    let mut results: Vec<(usize, bool, H)> = vec![];
    for r in 0..ROUTES.len() {
        for (is_shared, sp) in [(true, shared), (false, &fresh)] {
            ctx.count("transitions", 1);
            ctx.count("distinct_by_construction", 1);
            let env = sp.env.clone();
            match guarded(|| route(&env, r, tt)) {
                Err(p) => ctx.violation(format!("{TAG} route {} of f={tt:#x}", ROUTES[r]), format!("panicked: {p}"), case.clone()),
                Ok(h) => {
                    let c = judge(sp, &h, tt, ORACLE);
                    if !c.is_empty() {
                        ctx.violation(format!("{TAG} route {} of f={tt:#x} ({} environment)", ROUTES[r], if is_shared { "shared" } else { "fresh" }), c.join("; "), case.clone());
                    }
                    results.push((r, is_shared, h));
                }
            }
        }
    }
    // pairwise equality across routes and environments
    for i in 0..results.len() {
        for j in (i + 1)..results.len() {
            if results[i].2 != results[j].2 || results[i].2.get_hash() != results[j].2.get_hash() {
                ctx.violation(
                    format!("{TAG} routes {} vs {} of f={tt:#x}", ROUTES[results[i].0], ROUTES[results[j].0]),
                    format!("two construction routes of the same function are not equal: {} vs {}", robdd::show(&results[i].2), robdd::show(&results[j].2)),
                    case.clone(),
                );
            }
        }
    }
    ctx.sample(|| json!({"function": format!("{tt:#x}"), "routes": ROUTES, "diagram": robdd::show(&results.first().map(|r| r.2.clone()).unwrap_or_default())}));
}

/// outputs of the remaining public operations are canonical for whatever function they denote
fn check_outputs(ctx: &mut Ctx, sp: &Space<usize>, tt: u64) {
    let case = json!({"part": "outputs", "tt": tt});
    ctx.begin_case(|| case.clone());
    let env = sp.env.clone();
    let f = sp.get(tt);
    let k = sp.k;
    let mut outs: Vec<(String, Result<H, String>, Option<u64>)> = vec![];
    outs.push(("model".into(), guarded(|| env.model(f.clone())), None));
    outs.push(("retain True".into(), guarded(|| env.retain_choice_bottom_up(f.clone(), TruthTableEntry::True)), None));
    outs.push(("retain False".into(), guarded(|| env.retain_choice_bottom_up(f.clone(), TruthTableEntry::False)), None));
    outs.push(("simplify".into(), guarded(|| env.simplify(&f)), Some(tt)));
    outs.push(("clean".into(), guarded(|| env.clean(f.clone())), Some(tt)));
    outs.push(("find".into(), guarded(|| env.find(&f)), Some(tt)));
    for i in 0..k {
        let s = sp.syms[i];
        outs.push((format!("exists [{s}]"), guarded(|| env.exists(vec![s], f.clone())), Some(exists_tt(k, i, tt))));
        outs.push((format!("all [{s}]"), guarded(|| env.all(vec![s], f.clone())), Some(forall_tt(k, i, tt))));
        outs.push((format!("exists_impl {s}"), guarded(|| env.exists_impl(&s, f.clone())), Some(exists_tt(k, i, tt))));
    }
    let v0 = env.var(sp.syms[0]);
    let v3 = env.var(sp.syms[k - 1]);
    let list = vec![f.clone(), v3.clone(), v0.clone(), f.clone()];
    for n in 0..=2i64 {
        outs.push((format!("aln {n}"), guarded(|| env.aln(&list, n)), None));
        outs.push((format!("amn {n}"), guarded(|| env.amn(&list, n)), None));
        outs.push((format!("exn {n}"), guarded(|| env.exn(&list, n)), None));
    }
    outs.push(("count_lt".into(), guarded(|| env.count_lt(&[f.clone(), v0.clone()], &[v3.clone()])), None));
    outs.push(("count_eq".into(), guarded(|| env.count_eq(&[f.clone()], &[v3.clone(), v0.clone()])), None));
    outs.push(("fp".into(), guarded(|| env.fp(f.clone(), |x| env.or(x, v3.clone()))), Some(tt | var_tt(k, k - 1))));
    for (name, r, want) in outs {
        ctx.count("transitions", 1);
        ctx.count("distinct_by_construction", 1);
        match r {
            Err(p) => ctx.violation(format!("{TAG} {name} on f={tt:#x}"), format!("panicked: {p}"), case.clone()),
            Ok(h) => {
                let denotes = match sp.tt(&h) {
                    Ok(t) => t,
                    Err(e) => {
                        ctx.violation(format!("{TAG} {name} on f={tt:#x}"), e, case.clone());
                        continue;
                    }
                };
                // canonical for the function it denotes; where the expected function is
                // defined by another property's oracle it is also compared with that
                let mut c = judge(sp, &h, denotes, ORACLE);
                if let Some(w) = want {
                    if w != denotes {
                        c.push(format!("denotes {denotes:#x}, expected {w:#x}"));
                    }
                }
                if !c.is_empty() {
                    ctx.violation(format!("{TAG} {name} on f={tt:#x}"), c.join("; "), case.clone());
                }
            }
        }
    }
    let _ = depends_tt;
}

fn cross_env_iff(ctx: &mut Ctx, a: &Space<usize>) {
    // second, independent environment: same functions through the Shannon route
    let b = Space::<usize>::empty(&a.syms);
    let hs: Vec<H> = (0..a.nfun() as u64).map(|t| shannon_top_down(&b.env, &a.syms, t, 0)).collect();
    let mut idx = 0u64;
    for x in 0..a.nfun() as u64 {
        for y in 0..a.nfun() as u64 {
            idx += 1;
            if !ctx.mine(idx) {
                continue;
            }
            ctx.count("transitions", 1);
            ctx.count("distinct_by_construction", 1);
            let l = a.get(x);
            let r = &hs[y as usize];
            let eq = *l == **r;
            let heq = l.get_hash() == r.get_hash();
            if eq != (x == y) || (eq && !heq) {
                ctx.violation(
                    format!("{TAG} cross-environment == on f={x:#x}, g={y:#x}"),
                    format!("diagrams of two environments compare equal={eq} (hash equal={heq}) but the functions are {}", if x == y { "the same" } else { "different" }),
                    json!({"part": "iff", "syms": a.syms, "x": x, "y": y}),
                );
            }
        }
    }
}

fn eval_sweep_cfg(k: usize, thorough: bool) -> EvalSweep {
    if k == 2 {
        EvalSweep { ite: IteMode::Full, quant_maxlen: 3, count_const_maxlist: if thorough { 4 } else { 3 }, count_var_left: 2, count_var_right: 2 }
    } else {
        EvalSweep { ite: if thorough { IteMode::Full } else { IteMode::CondInit }, quant_maxlen: if thorough { 3 } else { 2 }, count_const_maxlist: if thorough { 2 } else { 1 }, count_var_left: 1, count_var_right: 1 }
    }
}

fn run(ctx: &mut Ctx) {
    let mut states = 0u64;
    // (1a) API closure
    for (syms, ite) in [(vec![2usize, 7], IteMode::Full), (vec![1usize, 4, 6], if ctx.thorough() { IteMode::Full } else { IteMode::CondInit })] {
        let sp = discover_api(ctx, &syms, ORACLE, TAG);
        states += sp.order.len() as u64;
        sweep_api(ctx, &sp, "closure", ORACLE, ite, TAG);
        if syms.len() == 3 {
            cross_env_iff(ctx, &sp);
        }
    }
    let spf = Space::<usize>::by_foreign(&[1, 4, 6]);
    sweep_api(ctx, &spf, "foreign", ORACLE, IteMode::None, TAG);
    // (1b) evaluator closure (NamedSymbol order with gaps; quantifier and counting detours)
    for k in [2usize, 3] {
        let mut es = discover_eval(ctx, k, ORACLE, TAG);
        states += es.sp.order.len() as u64;
        let cfg = eval_sweep_cfg(k, ctx.thorough());
        sweep_eval(ctx, &mut es, ORACLE, &cfg, TAG);
    }
    // (2) + (4) F_4
    match Space::<usize>::by_interning(&SYMS4) {
        Err(e) => ctx.violation(format!("{TAG} building F_4"), e, json!({"part": "routes", "tt": 0})),
        Ok(sp) => {
            states += sp.order.len() as u64;
            for tt in 0..65536u64 {
                if ctx.mine(tt) {
                    check_routes(ctx, &sp, tt);
                    check_outputs(ctx, &sp, tt);
                }
            }
        }
    }
    deep_twins(ctx);
    renamed_twins(ctx);
    sweep_named_wide(ctx, ORACLE, TAG);
    // every shape of four-variable function against all of F_4, both operand positions
    reps4_sweep(ctx, ORACLE, TAG, if ctx.thorough() { &crate::refl::ALL_BINS } else { &[crate::refl::Bin::And, crate::refl::Bin::Or] });
    sweep_family6(ctx, ORACLE, TAG);
    if ctx.thorough() {
        // complete F_4 x F_4 for every connective of the API: the result must BE the canonical diagram
        pairs4_sweep(ctx, ORACLE, TAG, &pairs4_ops(), "pairs_k4_complete");
    }
    ctx.global("states", states);
}

fn replay(ctx: &mut Ctx, case: &Value) {
    match case["part"].as_str() {
        Some("routes") | Some("outputs") => {
            let tt = case["tt"].as_u64().unwrap_or(0);
            match Space::<usize>::by_interning(&SYMS4) {
                Err(e) => ctx.violation(format!("{TAG} building F_4"), e, case.clone()),
                Ok(sp) => {
                    check_routes(ctx, &sp, tt);
                    check_outputs(ctx, &sp, tt);
                }
            }
        }
        Some("iff") => {
            let syms: Vec<usize> = case["syms"].as_array().map(|a| a.iter().map(|x| x.as_u64().unwrap_or(0) as usize).collect()).unwrap_or_default();
            let sp = discover_api(ctx, &syms, ORACLE, TAG);
            let mut c2 = Ctx::new("C02", ctx.tier, ctx.seed, 0, 1);
            cross_env_iff(&mut c2, &sp);
            for v in c2.violations {
                ctx.violation(v.key, v.what, v.replay);
            }
        }
        Some("eval-node") | Some("eval-init") => replay_eval(ctx, case, ORACLE, TAG),
        Some("family6") => replay_family6(ctx, case, ORACLE, TAG),
        Some("renamed-twins") => {
            let f = case["f"].as_u64().unwrap_or(0);
            let mut c2 = Ctx::new("C02", ctx.tier, ctx.seed, f % 256, 256);
            renamed_twins(&mut c2);
            for v in c2.violations {
                ctx.violation(v.key, v.what, v.replay);
            }
        }
        Some("deep-twins") => {
            let d = case["depth"].as_u64().unwrap_or(9);
            let mut c2 = Ctx::new("C02", ctx.tier, ctx.seed, d % 1024, 1024);
            deep_twins(&mut c2);
            for v in c2.violations {
                ctx.violation(v.key, v.what, v.replay);
            }
        }
        Some("named-wide") => replay_named_wide(ctx, case, ORACLE, TAG),
        _ => replay_api(ctx, case, ORACLE, TAG),
    }
}
