//! C17 — sudoku_gen emits a formula whose models are exactly the puzzle's solutions.

use crate::cli::run_bin;
use crate::enumerate::for_each_seq;
use crate::puzzles::*;
use crate::refl::{self, Ast, Cmp};
use crate::runner::{Ctx, Engine};
use rustc_hash::FxHashMap;
use serde_json::{json, Value};

pub static ENGINE: Engine = Engine {
    prop: "C17",
    level: "exploration",
    rule: "the real sudoku_gen binary. r=1: every puzzle text <= 3 characters over {1 . x space newline}. r=2: the empty puzzle and EVERY pattern of <= 2 givens (all cells x all digits, incl. contradictory pairs), each in five layouts (one line, 4 lines, spaces between cells, Windows line endings, tabs) with blanks spelled . x _, plus short and over-long texts: the models of the emitted formula, enumerated exhaustively by the constraint-DFS enumerator over its 64 variables, must be in bijection with the valid completed 4x4 grids (brute force: 288) that keep the givens, each model setting exactly one _c_is_d per cell. r=3 (24 single-given puzzles at the last rows, the completed grid, classic puzzles), r=4 and r=5: the multiset of `[..] = 1` conjuncts equals the independently generated family {cell, row x digit, column x digit, box x digit}, hint literals equal the givens, three valid grids satisfy the formula and ALL their single-cell changes and in-row swaps are rejected. Every case goes through one of three channels (puzzle on stdin / as INPUT file / INPUT file and an existing, longer OUTPUT file whose name has a blank and a quote), rotated so that every layout meets every channel; at r = 4, 5 also texts whose blanks are letters and punctuation. distinct = distinct (root, puzzle text)",
    assumptions: &["reference semantics (harness/src/puzzles.rs); givens are digits 1..r^2, every other non-whitespace character is a blank", "exact model sets for r <= 2; structural exactness plus near-miss rejection for r = 3"],
    max_shards: 64,
    run,
    replay,
};

const TAG: &str = "C17";

thread_local! {
    /// channel of the case in progress (see cli::run_gen): stdin / INPUT file / INPUT and OUTPUT files
    static CHANNEL: std::cell::Cell<usize> = const { std::cell::Cell::new(0) };
}

fn generate(r: usize, puzzle: &str) -> Result<String, String> {
    let g = crate::cli::run_gen("sudoku_gen", &["-r".to_string(), r.to_string()], puzzle.as_bytes(), true, CHANNEL.with(|c| c.get()));
    if !g.ok() {
        return Err(format!("sudoku_gen failed: {} {}", g.describe(), g.err_tail()));
    }
    Ok(g.out())
}

/// givens of a puzzle text as the property defines them
fn givens(r: usize, puzzle: &str) -> Vec<Option<u8>> {
    let sq = r * r;
    let cells: Vec<char> = puzzle.chars().filter(|c| !c.is_whitespace()).collect();
    (0..sq * sq).map(|i| cells.get(i).and_then(|c| c.to_digit(10)).filter(|d| *d >= 1 && *d as usize <= sq).map(|d| d as u8)).collect()
}

fn cell_var(c: usize, d: usize) -> String {
    format!("_{c}_is_{d}")
}

fn case(r: usize, puzzle: &str) -> Value {
    json!({"part": "puzzle", "root": r, "puzzle": puzzle, "channel": CHANNEL.with(|c| c.get())})
}

fn check_exact(ctx: &mut Ctx, r: usize, puzzle: &str, grids: &[Vec<u8>]) {
    ctx.begin_case(|| case(r, puzzle));
    ctx.count("evaluations", 1);
    ctx.distinct(&(r, puzzle));
    let key = format!("{TAG} r={r} puzzle {:?}", puzzle);
    let text = match generate(r, puzzle) {
        Ok(t) => t,
        Err(e) => {
            ctx.violation(key, e, case(r, puzzle));
            return;
        }
    };
    let ast = match refl::parse(&text) {
        Ok(a) => a,
        Err(e) => {
            ctx.violation(key, format!("the output is not a well-formed formula: {e}"), case(r, puzzle));
            return;
        }
    };
    let sq = r * r;
    let mut vars: Vec<String> = vec![];
    for c in 0..sq * sq {
        for d in 1..=sq {
            vars.push(cell_var(c, d));
        }
    }
    if let Some(x) = ast.names().iter().find(|n| !vars.contains(n)) {
        ctx.violation(key, format!("the formula mentions '{x}', which is not a cell variable"), case(r, puzzle));
        return;
    }
    let gv = givens(r, puzzle);
    let mut want: Vec<Vec<u8>> = grids.iter().filter(|g| g.iter().zip(gv.iter()).all(|(d, h)| h.map(|h| h == *d).unwrap_or(true))).cloned().collect();
    want.sort();
    let Some(models) = enumerate_models(&ast, &vars, 1000, 50_000_000) else {
        ctx.violation(key, "the formula has more than 1000 models (a 4x4 sudoku has at most 288 solutions)".into(), case(r, puzzle));
        return;
    };
    ctx.count("models_enumerated", models.len() as u64);
    let mut got: Vec<Vec<u8>> = vec![];
    for m in &models {
        let mut grid = vec![0u8; sq * sq];
        for c in 0..sq * sq {
            let ds: Vec<usize> = (1..=sq).filter(|d| m[c * sq + d - 1]).collect();
            if ds.len() != 1 {
                ctx.violation(key, format!("a model sets {} digit variables for cell {c}", ds.len()), case(r, puzzle));
                return;
            }
            grid[c] = ds[0] as u8;
        }
        got.push(grid);
    }
    got.sort();
    if got != want {
        let extra: Vec<&Vec<u8>> = got.iter().filter(|g| !want.contains(g)).take(1).collect();
        let missing: Vec<&Vec<u8>> = want.iter().filter(|g| !got.contains(g)).take(1).collect();
        ctx.violation(key, format!("the formula has {} models, the puzzle has {} solutions; model that is no solution: {:?}; solution that is no model: {:?}", got.len(), want.len(), extra, missing), case(r, puzzle));
    }
    ctx.sample(|| json!({"root": r, "puzzle": puzzle, "solutions": want.len()}));
}

fn check_r3(ctx: &mut Ctx, puzzle: &str) {
    check_structure(ctx, 3, puzzle)
}

fn check_structure(ctx: &mut Ctx, r: usize, puzzle: &str) {
    ctx.begin_case(|| case(r, puzzle));
    ctx.count("evaluations", 1);
    ctx.distinct(&(r, puzzle));
    let key = format!("{TAG} r={r} puzzle {:?}", puzzle);
    let text = match generate(r, puzzle) {
        Ok(t) => t,
        Err(e) => {
            ctx.violation(key, e, case(r, puzzle));
            return;
        }
    };
    let ast = match refl::parse(&text) {
        Ok(a) => a,
        Err(e) => {
            ctx.violation(key, format!("the output is not a well-formed formula: {e}"), case(r, puzzle));
            return;
        }
    };
    let sq = r * r;
    let mut lists: Vec<Vec<String>> = vec![];
    let mut hints: Vec<String> = vec![];
    let mut other = vec![];
    for c in conjuncts(&ast) {
        match c {
            Ast::CC(Cmp::Exactly, l, k) if k == "1" && l.iter().all(|x| matches!(x, Ast::Var(_))) => {
                let mut v: Vec<String> = l.iter().filter_map(|x| if let Ast::Var(v) = x { Some(v.clone()) } else { None }).collect();
                v.sort();
                lists.push(v);
            }
            Ast::Var(v) => hints.push(v.clone()),
            Ast::True => {}
            o => other.push(format!("{:?}", o)),
        }
    }
    let mut want: Vec<Vec<String>> = vec![];
    for c in 0..sq * sq {
        want.push((1..=sq).map(|d| cell_var(c, d)).collect());
    }
    for i in 0..sq {
        for d in 1..=sq {
            want.push((0..sq).map(|j| cell_var(i * sq + j, d)).collect());
            want.push((0..sq).map(|j| cell_var(j * sq + i, d)).collect());
        }
    }
    for bi in 0..r {
        for bj in 0..r {
            for d in 1..=sq {
                want.push((0..sq).map(|l| cell_var((bi * r + l / r) * sq + bj * r + l % r, d)).collect());
            }
        }
    }
    for w in want.iter_mut() {
        w.sort();
    }
    want.sort();
    lists.sort();
    let mut c = vec![];
    if !other.is_empty() {
        c.push(format!("unexpected conjuncts {:?}", &other[..other.len().min(2)]));
    }
    if lists != want {
        let missing: Vec<&Vec<String>> = want.iter().filter(|w| !lists.contains(w)).take(1).collect();
        let extra: Vec<&Vec<String>> = lists.iter().filter(|w| !want.contains(w)).take(1).collect();
        c.push(format!("the `= 1` constraints are not exactly cells, rows, columns and boxes per digit ({} vs {}): missing {:?}, unexpected {:?}", lists.len(), want.len(), missing, extra));
    }
    let gv = givens(r, puzzle);
    let mut want_h: Vec<String> = gv.iter().enumerate().filter_map(|(i, h)| h.map(|d| cell_var(i, d as usize))).collect();
    want_h.sort();
    hints.sort();
    if hints != want_h {
        c.push(format!("hint literals {:?} differ from the givens {:?}", hints, want_h));
    }
    if !c.is_empty() {
        ctx.violation(key, c.join("; "), case(r, puzzle));
        return;
    }
    // semantic spot-exhaustion on the hint-free part: valid grids accepted, every
    // single-cell change and every in-row swap rejected
    if r == 3 && gv.iter().all(Option::is_none) {
        let base: Vec<u8> = (0..81).map(|i| (((i / 9) * 3 + (i / 9) / 3 + i % 9) % 9 + 1) as u8).collect();
        let grids: Vec<Vec<u8>> = vec![
            base.clone(),
            base.iter().map(|d| (d % 9) + 1).collect(),
            (0..81).map(|i| base[(i % 9) * 9 + i / 9]).collect(),
        ];
        let eval = |g: &[u8]| {
            let mut env: FxHashMap<String, bool> = FxHashMap::default();
            for cidx in 0..81 {
                for d in 1..=9 {
                    env.insert(cell_var(cidx, d), g[cidx] as usize == d);
                }
            }
            eval_total(&ast, &mut env)
        };
        for g in &grids {
            if !sudoku_valid(3, g) {
                panic!("machinery: reference grid is not valid");
            }
            ctx.count("grids_evaluated", 1);
            if !eval(g) {
                ctx.violation(key.clone(), "a valid completed grid does not satisfy the formula".into(), case(r, puzzle));
                return;
            }
            for cidx in 0..81 {
                for d in 1..=9u8 {
                    if d != g[cidx] {
                        let mut h = g.clone();
                        h[cidx] = d;
                        ctx.count("grids_evaluated", 1);
                        if eval(&h) {
                            ctx.violation(key.clone(), format!("an invalid grid (cell {cidx} changed to {d}) satisfies the formula"), case(r, puzzle));
                            return;
                        }
                    }
                }
            }
            for row in 0..9 {
                for i in 0..9 {
                    for j in (i + 1)..9 {
                        let mut h = g.clone();
                        h.swap(row * 9 + i, row * 9 + j);
                        ctx.count("grids_evaluated", 1);
                        if eval(&h) {
                            ctx.violation(key.clone(), format!("an invalid grid (cells {i},{j} of row {row} swapped) satisfies the formula"), case(r, puzzle));
                            return;
                        }
                    }
                }
            }
        }
    }
}

fn layouts(cells: &[char], blank: char) -> Vec<String> {
    let s: String = cells.iter().map(|c| if *c == '.' { blank } else { *c }).collect();
    let lines: Vec<String> = s.chars().collect::<Vec<_>>().chunks(4).map(|c| c.iter().collect()).collect();
    let spaced: String = s.chars().map(|c| format!("{c} ")).collect();
    let tabbed: String = lines.join("\t");
    // Unicode whitespace that is not ASCII whitespace: NO-BREAK SPACE between cells, vertical tab,
    // IDEOGRAPHIC SPACE and LINE SEPARATOR between rows
    let nbsp: String = s.chars().map(|c| format!("{c}\u{a0}")).collect();
    let exotic: String = lines.iter().enumerate().map(|(i, l)| format!("{l}{}", ['\u{b}', '\u{3000}', '\u{2028}', '\u{85}'][i % 4])).collect();
    vec![s.clone(), lines.join("\n") + "\n", spaced, lines.join("\r\n") + "\r\n", tabbed, nbsp, exotic]
}

fn run(ctx: &mut Ctx) {
    let mut idx = 0u64;
    // r = 1
    let alpha = ['1', '.', 'x', ' ', '\n'];
    let g1 = vec![vec![1u8]];
    for len in 0..=3 {
        let mut todo = vec![];
        for_each_seq(alpha.len(), len, &mut |_, d| todo.push(d.iter().map(|i| alpha[*i]).collect::<String>()));
        for p in todo {
            idx += 1;
            if ctx.mine(idx) {
                CHANNEL.with(|c| c.set((idx % 3) as usize));
                check_exact(ctx, 1, &p, &g1);
            }
        }
    }
    // r = 2
    let grids = sudoku4_grids();
    let mut patterns: Vec<Vec<char>> = vec![vec!['.'; 16]];
    for c1 in 0..16 {
        for d1 in 1..=4u8 {
            let mut p = vec!['.'; 16];
            p[c1] = (b'0' + d1) as char;
            patterns.push(p.clone());
            for c2 in (c1 + 1)..16 {
                for d2 in 1..=4u8 {
                    let mut q = p.clone();
                    q[c2] = (b'0' + d2) as char;
                    patterns.push(q);
                }
            }
        }
    }
    ctx.global("hint_patterns_r2", patterns.len() as u64);
    for (pi, p) in patterns.iter().enumerate() {
        let blank = ['.', 'x', '_', '-', '|', '+', '#', ';', '*'][pi % 9];
        let ls = layouts(p, blank);
        // quick: one layout per pattern (cycling), thorough: all three
        let pick: Vec<&String> = if ctx.thorough() { ls.iter().collect() } else { vec![&ls[pi % 7]] };
        for (li, l) in pick.into_iter().enumerate() {
            idx += 1;
            if ctx.mine(idx) {
                // every layout meets every channel (stdin / INPUT file / INPUT and OUTPUT files)
                CHANNEL.with(|c| c.set((pi / 7 + li) % 3));
                check_exact(ctx, 2, l, &grids);
            }
        }
    }
    for p in ["", "1", "12", "1234", "12343412", "1234341221434321", "12343412214343211234", "1.3.\n.4.2\n\n2.4.\n.3.1 trailing text 123", "\u{e9}\u{663}..1"] {
        idx += 1;
        if ctx.mine(idx) {
            for ch in 0..3 {
                CHANNEL.with(|c| c.set(ch));
                check_exact(ctx, 2, p, &grids);
            }
        }
    }
    // r = 3
    let full9 = "534678912672195348198342567859761423426853791713924856961537284287419635345286179";
    let mut r3: Vec<String> = vec!["".into(), "53..7....6..195....98....6.8...6...34..8.3..17...2...6.6....28....419..5....8..79".into(), "123456789".into(), ".\n.\n9".into(), full9.into()];
    // a single given at every cell of the last two rows and at cells 0, 40; every digit once
    for c in [0usize, 40, 63, 64, 71, 72, 79, 80] {
        for d in [1usize, 5, 9] {
            let mut p = vec!['.'; 81];
            p[c] = char::from_digit(d as u32, 10).unwrap_or('1');
            r3.push(p.iter().collect());
        }
    }
    // the completed grid spread over lines with spaces, and with all but the last row blanked
    r3.push(full9.as_bytes().chunks(9).map(|c| c.iter().map(|b| format!("{} ", *b as char)).collect::<String>()).collect::<Vec<_>>().join("\n"));
    r3.push(format!("{}{}", ".".repeat(72), &full9[72..]));
    // a legal puzzle text can be long: every cell followed by 1000 blanks (81 KB), givens in the
    // last rows
    r3.push(full9.chars().enumerate().map(|(i, c)| format!("{}{}", if i < 60 { '.' } else { c }, " ".repeat(1000))).collect());
    // long texts whose blanks and whitespace are multi-byte characters (so that some character
    // straddles every power-of-two byte offset somewhere), givens in the last rows
    for pad in [333usize, 1000, 1365] {
        r3.push(full9.chars().enumerate().map(|(i, c)| format!("{}{}", if i < 60 { '\u{b7}' } else { c }, "\u{a0}".repeat(pad + i % 2))).collect());
    }
    for p in &r3 {
        idx += 1;
        if ctx.mine(idx) {
            CHANNEL.with(|c| c.set((idx % 3) as usize));
            check_r3(ctx, p);
        }
    }
    // the documented default root is 3: without -r the output is that of -r 3, whatever the
    // length of the text (16, 81, 256 cells and lengths around them)
    for n in [0usize, 1, 15, 16, 17, 80, 81, 82, 255, 256, 257, 625, 1296] {
        idx += 1;
        if !ctx.mine(idx) {
            continue;
        }
        let text: String = "1.......2...3...4".chars().cycle().take(n).collect();
        let c = json!({"part": "default-root", "cells": n});
        ctx.begin_case(|| c.clone());
        ctx.count("evaluations", 1);
        let with = run_bin("sudoku_gen", &["-r".to_string(), "3".to_string()], Some(text.as_bytes()), &[]);
        let without = run_bin("sudoku_gen", &[], Some(text.as_bytes()), &[]);
        let strip = |o: String| -> String { o.lines().filter(|l| !l.trim_start().starts_with('"')).collect::<Vec<_>>().join("\n") };
        if !with.ok() || !without.ok() || strip(with.out()) != strip(without.out()) {
            ctx.violation(format!("{TAG} default root, text of {n} cells"), format!("sudoku_gen without -r ({}) does not print what sudoku_gen -r 3 ({}) prints", without.describe(), with.describe()), c);
        }
    }
    // r = 4 and r = 5: structure of the hint-free output and of one hinted puzzle
    for r in [4usize, 5] {
        // letters and punctuation are blanks whatever the root; single digits 1..9 are givens (the
        // digit 0 and digits above r^2 are outside the property's domain and not used)
        let letters: String = "abcdefgABCDEFGxyz_.,-*".chars().cycle().take(r * r * r * r).enumerate().map(|(i, c)| if i % 37 == 5 { char::from_digit((i % 9 + 1) as u32, 10).unwrap_or('1') } else { c }).collect();
        let spaced: String = letters.chars().collect::<Vec<_>>().chunks(r * r).map(|row| row.iter().map(|c| format!("{c} ")).collect::<String>()).collect::<Vec<_>>().join("\n\n");
        for p in ["".to_string(), format!("{}{}", ".".repeat(r * r * r * r - 3), "123"), letters, spaced] {
            for ch in 0..3 {
                idx += 1;
                if ctx.mine(idx) {
                    CHANNEL.with(|c| c.set(ch));
                    check_structure(ctx, r, &p);
                }
            }
        }
    }
}

fn replay(ctx: &mut Ctx, c: &Value) {
    if c["part"].as_str() == Some("default-root") {
        let n = c["cells"].as_u64().unwrap_or(16) as usize;
        let text: String = "1.......2...3...4".chars().cycle().take(n).collect();
        let with = run_bin("sudoku_gen", &["-r".to_string(), "3".to_string()], Some(text.as_bytes()), &[]);
        let without = run_bin("sudoku_gen", &[], Some(text.as_bytes()), &[]);
        let strip = |o: String| -> String { o.lines().filter(|l| !l.trim_start().starts_with('"')).collect::<Vec<_>>().join("\n") };
        if !with.ok() || !without.ok() || strip(with.out()) != strip(without.out()) {
            ctx.violation(format!("{TAG} default root, text of {n} cells"), "sudoku_gen without -r does not print what sudoku_gen -r 3 prints".to_string(), c.clone());
        }
        return;
    }
    let r = c["root"].as_u64().unwrap_or(2) as usize;
    let p = c["puzzle"].as_str().unwrap_or("");
    CHANNEL.with(|ch| ch.set(c["channel"].as_u64().unwrap_or(0) as usize));
    match r {
        1 => check_exact(ctx, 1, p, &[vec![1u8]]),
        2 => check_exact(ctx, 2, p, &sudoku4_grids()),
        3 => check_r3(ctx, p),
        _ => check_structure(ctx, r, p),
    }
}
