//! C01 — evaluating a formula yields exactly its documented truth function.
//! S: closure through the real evaluator; E: every AST up to a node bound through text.

use crate::cli::{parse_table, row_assignments, Inv};
use crate::closure::*;
use crate::enumerate::{self, Alpha, Gen};
use crate::refl::{self, Ast, Bin, Cmp, Sem, ALL_BINS, ALL_CMPS};
use crate::runner::{Ctx, Engine};
use crate::textsem::*;
use serde_json::{json, Value};

pub static ENGINE: Engine = Engine {
    prop: "C01",
    level: "model_checking",
    rule: "S: state-space closure through the real evaluator (ParsedFormula::eval on one syntax node over Subtree operands): states = all Boolean functions over k named variables with non-adjacent ids (k=2: 16, k=3: 256), BFS from {true,false,variables} under Not and the 8 binary operators until a round adds nothing, then EVERY node kind (Not, 8 BinaryOps, Ite, Exists/Forall x every variable list <= 3 incl. repeats and an outside variable, 5 counting operators x constants 0..L+1 x every operand list <= L, 5 list-vs-list comparisons) on EVERY operand tuple; oracle = truth table. E: every AST with <= N nodes over the full alphabet (5 leaves, not, 8 binary, if, 6 quantifier heads, lfp/gfp, 5 comparisons x {0,1,2} and list-vs-list, lists <= 3), printed with minimal and with full parentheses, every alias spelling (all combinations for <= 2 nodes), parsed and evaluated by the real code, truth table by variable NAME vs the reference denotation; three deeper strata plus a scoping stratum (negation, one connective, if-then-else, four quantifier heads incl. one that lists the fixed-point binder, one fixed point; <= 6 (7) nodes, and its dual); a structured deep family (chains to depth 40 over six names, quantifier / if / fixed-point towers, counting lists of 5..9 operands); second observation point `rsbdd -t`. distinct = distinct (node kind, operands) + distinct formula texts",
    assumptions: &["reference semantics in harness/src/refl.rs (truth tables, fixed points by iteration with cycle detection)", "fixed points whose reference iteration does not converge are out of scope and counted", "k <= 3 variables in S, <= 6 names in E; AST size bounds as reported"],
    max_shards: 64,
    run,
    replay,
};

const ORACLE: Oracle = Oracle { semantic: true, canonical: false };
const TAG: &str = "C01";

fn s(x: &str) -> String {
    x.to_string()
}

pub fn connective_core() -> Alpha {
    Alpha { leaves: vec![Ast::True, Ast::False, Ast::var("a"), Ast::var("b"), Ast::var("c")], not: true, bins: ALL_BINS.to_vec(), ite: true, ..Default::default() }
}
pub fn binder_core() -> Alpha {
    Alpha {
        leaves: vec![Ast::True, Ast::var("a"), Ast::var("b"), Ast::var("X"), Ast::var("Y"), Ast::var("Z")],
        not: true,
        bins: vec![Bin::And, Bin::Or],
        ite: false,
        quants: vec![(true, vec![s("a")]), (false, vec![s("a")]), (true, vec![s("X")]), (false, vec![s("b"), s("a")])],
        fps: vec![(s("X"), false), (s("X"), true), (s("Y"), false), (s("Y"), true), (s("Z"), false)],
        ..Default::default()
    }
}
/// scoping: negation, one connective, if-then-else, four quantifier heads (one of them listing
/// the fixed-point binder next to an ordinary variable) and one fixed point, so that 6- and
/// 7-node formulas nest binders of the same name, binders around if-then-else, and negated
/// quantifiers; `dual` swaps the connective, the quantifier kinds and the fixed-point kind
pub fn scoping_core(dual: bool) -> Alpha {
    Alpha {
        leaves: vec![Ast::var("a"), Ast::var("b"), Ast::var("c"), Ast::var("X")],
        not: true,
        bins: vec![if dual { Bin::Or } else { Bin::And }],
        ite: true,
        quants: vec![(!dual, vec![s("a")]), (dual, vec![s("b")]), (!dual, vec![s("b")]), (!dual, vec![s("X"), s("a")])],
        fps: vec![(s("X"), dual)],
        ..Default::default()
    }
}
pub fn counting_core() -> Alpha {
    // lean: an empty-list comparison is already a 1-node formula, so the number of 5-node
    // counting formulas explodes with the number of constants and leaves
    Alpha { leaves: vec![Ast::True, Ast::var("a"), Ast::var("b")], not: true, bins: vec![Bin::And], ite: false, cmps: ALL_CMPS.to_vec(), nums: vec![s("1"), s("2")], cv: true, max_list: 3, ..Default::default() }
}

fn check_ast_texts(ctx: &mut Ctx, a: &Ast, salt: u64, all_combos: bool, cli: bool, light: bool) {
    let texts = if light {
        // largest size of the quick tier: canonical minimal-parentheses text and the fully
        // parenthesised text with cycling aliases only
        let full = refl::to_tokens(a, refl::FULL);
        let n = spelling_combinations(&full);
        let mut v = vec![refl::pp(a, refl::MINIMAL), render_combo(&full, salt.wrapping_mul(2654435761) % n)];
        v.dedup();
        v
    } else {
        renderings(a, salt, all_combos)
    };
    for text in texts {
        if refl::parse(&text).as_ref() != Ok(a) {
            panic!("machinery: reference printer/parser round trip failed for {:?} -> {text}", a);
        }
        if check_text(ctx, TAG, a, &text).is_some() {
            ctx.distinct(&text);
            ctx.sample(|| json!({"text": text}));
        }
    }
    if cli {
        check_cli_table(ctx, a, &refl::pp(a, refl::MINIMAL));
    }
}

/// second observation point: the stdout table of the real binary
fn check_cli_table(ctx: &mut Ctx, a: &Ast, text: &str) {
    let names = a.names();
    if names.len() > 6 || a.has_ref() {
        return;
    }
    let sem = Sem::new(&names);
    let Some(want) = sem.eval_closed(a) else { return };
    let inv = Inv::new(text, &["-t"]);
    ctx.begin_case(|| json!({"part": "cli", "text": text}));
    ctx.count("evaluations", 1);
    ctx.count("cli_tables", 1);
    let r = inv.run();
    let key = format!("{TAG} rsbdd --evaluate -t: {text}");
    let case = json!({"part": "cli", "text": text});
    if !r.run.ok() {
        ctx.violation(key, format!("rsbdd failed: {} {}", r.run.describe(), r.run.err_tail()), case);
        return;
    }
    match parse_table(&r.run.out()) {
        Err(e) => ctx.violation(key, format!("unreadable table: {e}"), case),
        Ok(t) => {
            // value of every total assignment of the header variables as printed
            let cols: Vec<Option<usize>> = t.header.iter().map(|h| names.iter().position(|n| n == h)).collect();
            if cols.iter().any(Option::is_none) {
                ctx.violation(key, format!("table column is not a variable of the formula: {:?}", t.header), case);
                return;
            }
            let mut seen = vec![None; 1usize << t.header.len()];
            for (cells, res) in &t.rows {
                for asg in row_assignments(cells) {
                    seen[asg] = Some(*res);
                }
            }
            for (asg, v) in seen.iter().enumerate() {
                // extend the column assignment to all names: non-column names are not free, so any value
                let mut full_asg = 0usize;
                for (ci, c) in cols.iter().enumerate() {
                    if (asg >> ci) & 1 == 1 {
                        full_asg |= 1 << c.unwrap_or(0);
                    }
                }
                let w = (want >> full_asg) & 1 == 1;
                if *v != Some(w) {
                    ctx.violation(key, format!("printed table gives {:?} for assignment {asg:#b} of {:?}, the documented meaning gives {w}", v, t.header), case);
                    return;
                }
            }
        }
    }
}


/// deeper nesting than the enumerations reach: right- and left-nested chains over six names
/// to depth 40 with the operators cycling from every offset, quantifier towers, if-towers
/// and counting lists of up to 9 operands
pub fn deep_asts() -> Vec<Ast> {
    let names = ["a", "b", "c", "d", "e", "f"];
    let term = |i: usize| if i % 7 == 3 { Ast::not(Ast::var(names[i % 6])) } else { Ast::var(names[i % 6]) };
    let mut out = vec![];
    for depth in 1..=40usize {
        for off in 0..8usize {
            // right-nested: t0 op (t1 op (t2 ...))
            let mut r = term(depth + off);
            for i in (0..depth).rev() {
                r = Ast::bin(ALL_BINS[(i + off) % 8], term(i + off), r);
            }
            out.push(r);
            // left-nested: ((t0 op t1) op t2) ...
            let mut l = term(off);
            for i in 0..depth {
                l = Ast::bin(ALL_BINS[(i + off) % 8], l, term(i + off + 1));
            }
            out.push(l);
        }
    }
    // homogeneous chains: ONE connective repeated 1..14 times over six names (so operands
    // repeat from the seventh on), plain and with every third operand negated, both nestings
    for op in ALL_BINS {
        for depth in 1..=14usize {
            for neg in [false, true] {
                let t = |i: usize| if neg && i % 3 == 2 { Ast::not(Ast::var(names[i % 6])) } else { Ast::var(names[i % 6]) };
                let mut r = t(depth);
                for i in (0..depth).rev() {
                    r = Ast::bin(op, t(i), r);
                }
                out.push(r);
                let mut l = t(0);
                for i in 0..depth {
                    l = Ast::bin(op, l, t(i + 1));
                }
                out.push(l);
            }
        }
    }
    for depth in 1..=12usize {
        // quantifier tower over a fixed 6-variable body
        let mut body = Ast::bin(Bin::Xor, Ast::bin(Bin::And, Ast::var("a"), Ast::var("b")), Ast::bin(Bin::Or, Ast::var("c"), Ast::bin(Bin::Iff, Ast::var("d"), Ast::bin(Bin::Implies, Ast::var("e"), Ast::var("f")))));
        for i in 0..depth {
            body = Ast::q(i % 2 == 0, &[names[(i * 5) % 6]], body);
        }
        out.push(body);
        // if-tower
        let mut t = Ast::var("f");
        for i in 0..depth {
            t = if i % 2 == 0 { Ast::ite(term(i), t, term(i + 2)) } else { Ast::ite(term(i), term(i + 1), t) };
        }
        out.push(t);
        // nested negations and fixed points
        let mut n = Ast::bin(Bin::Or, Ast::var("X"), Ast::var("a"));
        for i in 0..depth.min(8) {
            n = if i % 2 == 0 { Ast::not(Ast::not(n)) } else { Ast::bin(Bin::And, n, Ast::bin(Bin::Or, Ast::var("X"), term(i))) };
        }
        out.push(Ast::fp("X", false, n));
    }
    // long names that differ only in their last character
    for l in [8usize, 16, 31, 32, 33, 64, 65, 128, 256, 300] {
        let base: String = "valve_of_the_primary_cooling_circuit_is_".chars().cycle().take(l).collect();
        let (n1, n2) = (format!("{base}a"), format!("{base}b"));
        out.push(Ast::bin(Bin::And, Ast::var(&n1), Ast::not(Ast::var(&n2))));
        out.push(Ast::bin(Bin::Iff, Ast::var(&n2), Ast::bin(Bin::Or, Ast::var(&base), Ast::var(&n1))));
    }
    for len in 5..=9usize {
        for off in 0..6usize {
            let l: Vec<Ast> = (0..len).map(|i| term(i * 5 + off)).collect();
            for op in ALL_CMPS {
                for n in [0usize, 1, len / 2, len - 1, len] {
                    out.push(Ast::CC(op, l.clone(), n.to_string()));
                }
                out.push(Ast::CV(op, l[..len / 2].to_vec(), l[len / 2..].to_vec()));
            }
        }
    }
    out
}

/// deeper nesting than the enumerations reach: right- and left-nested chains over six names
/// to depth 40 with the operators cycling from every offset, quantifier towers, if-towers
/// and counting lists of up to 9 operands
fn deep_family(ctx: &mut Ctx) {
    let mut idx = 0u64;
    for a in deep_asts() {
        idx += 1;
        if !ctx.mine(idx) {
            continue;
        }
        for st in [refl::MINIMAL, refl::FULL] {
            let text = refl::pp(&a, st);
            if refl::parse(&text).as_ref() != Ok(&a) {
                panic!("machinery: round trip failed for {text}");
            }
            if check_text(ctx, TAG, &a, &text).is_some() {
                ctx.distinct(&text);
                ctx.count("deep_family_texts", 1);
            }
        }
    }
}

fn extreme_constants(ctx: &mut Ctx) {
    let consts = ["9223372036854775806", "9223372036854775807", "9223372036854775808", "18446744073709551615", "18446744073709551616", "99999999999999999999999999"];
    let lists: Vec<Vec<Ast>> = vec![vec![], vec![Ast::var("a")], vec![Ast::var("a"), Ast::var("b")], vec![Ast::var("a"), Ast::not(Ast::var("a"))]];
    let mut idx = 0;
    for c in consts {
        for op in ALL_CMPS {
            for l in &lists {
                idx += 1;
                if !ctx.mine(idx) {
                    continue;
                }
                let a = Ast::CC(op, l.clone(), c.to_string());
                let text = refl::pp(&a, refl::MINIMAL);
                ctx.count("extreme_constants", 1);
                if c.parse::<usize>().is_ok() {
                    check_text(ctx, TAG, &a, &text);
                } else {
                    // a constant the syntax cannot represent must be refused, never reinterpreted
                    ctx.begin_case(|| text_case(&text));
                    ctx.count("evaluations", 1);
                    if let crate::conv::ImplParse::Ok(_) = crate::conv::impl_parse(&text) {
                        ctx.violation(format!("{TAG} text: {text}"), "a constant that does not fit the number type was accepted".into(), text_case(&text));
                    }
                }
            }
        }
    }
}

fn eval_sweep_cfg(k: usize, thorough: bool) -> EvalSweep {
    if k == 2 {
        EvalSweep { ite: IteMode::Full, quant_maxlen: 3, count_const_maxlist: 4, count_var_left: if thorough { 3 } else { 2 }, count_var_right: 2 }
    } else {
        EvalSweep { ite: if thorough { IteMode::Full } else { IteMode::CondInit }, quant_maxlen: 3, count_const_maxlist: 2, count_var_left: 1, count_var_right: 1 }
    }
}

fn stream_stratum(ctx: &mut Ctx, alpha: Alpha, from: usize, upto: usize, idx: &mut u64, label: &str, combos_upto: usize, cli_upto: usize, light_from: usize) {
    let mut g = Gen::new(alpha);
    for size in from..=upto {
        let mut todo: Vec<(Ast, u64)> = vec![];
        let mut flush = |ctx: &mut Ctx, todo: &mut Vec<(Ast, u64)>| {
            for (a, i) in todo.drain(..) {
                check_ast_texts(ctx, &a, i, size <= combos_upto, size <= cli_upto, size >= light_from);
                ctx.count(label, 1);
            }
        };
        g.stream(size, &mut |a| {
            *idx += 1;
            if ctx.mine(*idx) {
                todo.push((a, *idx));
            }
            if todo.len() >= 2048 {
                flush(ctx, &mut todo);
            }
        });
        flush(ctx, &mut todo);
    }
}

fn run(ctx: &mut Ctx) {
    // S: closure through the evaluator
    let mut states = 0;
    for k in [2usize, 3] {
        let mut es = discover_eval(ctx, k, ORACLE, TAG);
        let reached = es.sp.order.len() as u64;
        states += reached;
        ctx.global(&format!("states_k{k}"), reached);
        if reached != es.sp.nfun() as u64 {
            ctx.violation(format!("{TAG} evaluator k={k}: closure"), format!("the closure reached only {reached} of {} functions", es.sp.nfun()), json!({"part": "eval-init", "k": k, "what": "closure"}));
        }
        let cfg = eval_sweep_cfg(k, ctx.thorough());
        sweep_eval(ctx, &mut es, ORACLE, &cfg, TAG);
    }
    ctx.global("states", states);
    // E: text front end
    let mut idx = 0u64;
    let th = ctx.thorough();
    stream_stratum(ctx, enumerate::full_alpha(), 1, 4, &mut idx, "asts_full_alphabet", 2, if th { 3 } else { 2 }, if th { 99 } else { 4 });
    if th {
        stream_stratum(ctx, connective_core(), 5, 7, &mut idx, "asts_connective_core", 0, 0, 99);
        stream_stratum(ctx, binder_core(), 1, 6, &mut idx, "asts_binder_core", 0, 0, 99);
        stream_stratum(ctx, counting_core(), 1, 4, &mut idx, "asts_counting_core", 0, 0, 99);
    } else {
        stream_stratum(ctx, connective_core(), 5, 5, &mut idx, "asts_connective_core", 0, 0, 99);
        stream_stratum(ctx, binder_core(), 1, 5, &mut idx, "asts_binder_core", 0, 0, 5);
    }
    stream_stratum(ctx, scoping_core(false), 1, if th { 7 } else { 6 }, &mut idx, "asts_scoping_core", 0, 0, 5);
    stream_stratum(ctx, scoping_core(true), 1, if th { 7 } else { 6 }, &mut idx, "asts_scoping_core", 0, 0, 5);
    // names with non-ASCII letters, apostrophes and one name a prefix of another
    {
        fn ren(a: &Ast, set: usize) -> Ast {
            let ren = |x: &Ast| ren(x, set);
            let r = |n: &String| match (set, n.as_str()) {
                (0, "a") => "a\u{e9}".to_string(),
                (0, "b") => "a".to_string(),
                (0, "X") => "X\u{3b2}'".to_string(),
                // names that differ only in letter case, one of them the fixed-point binder
                (1, "a") => "x".to_string(),
                (1, "b") => "Q".to_string(),
                (1, "X") => "X".to_string(),
                // a name that begins with an apostrophe next to the same name without it
                (2, "a") => "'a".to_string(),
                (2, "b") => "a".to_string(),
                (2, "X") => "'X'".to_string(),
                // a combining mark / a connector / a joiner inside a name, next to the bare name
                (3, "a") => "cafe\u{301}".to_string(),
                (3, "b") => "cafe".to_string(),
                (3, "X") => "X\u{203f}1\u{200d}".to_string(),
                (_, o) => o.to_string(),
            };
            match a {
                Ast::Var(v) => Ast::Var(r(v)),
                Ast::Not(x) => Ast::Not(Box::new(ren(x))),
                Ast::Q(e, vs, b) => Ast::Q(*e, vs.iter().map(r).collect(), Box::new(ren(b))),
                Ast::Fp(x, g, b) => Ast::Fp(r(x), *g, Box::new(ren(b))),
                Ast::CC(o, l, n) => Ast::CC(*o, l.iter().map(&ren).collect(), n.clone()),
                Ast::CV(o, l, rr) => Ast::CV(*o, l.iter().map(&ren).collect(), rr.iter().map(&ren).collect()),
                Ast::Ite(c, t, e) => Ast::Ite(Box::new(ren(c)), Box::new(ren(t)), Box::new(ren(e))),
                Ast::Bin(o, l, rr) => Ast::Bin(*o, Box::new(ren(l)), Box::new(ren(rr))),
                o => o.clone(),
            }
        }
        let mut g = Gen::new(enumerate::full_alpha());
        for size in 1..=3 {
            let mut todo = vec![];
            g.stream(size, &mut |a| {
                idx += 1;
                if ctx.mine(idx) {
                    todo.push(a);
                }
            });
            for a in todo {
                for set in 0..4 {
                    let ra = ren(&a, set);
                    let text = refl::pp(&ra, refl::MINIMAL);
                    if refl::parse(&text).as_ref() != Ok(&ra) {
                        panic!("machinery: round trip failed for {text}");
                    }
                    if check_text(ctx, TAG, &ra, &text).is_some() {
                        ctx.distinct(&text);
                        ctx.count("asts_renamed", 1);
                    }
                }
            }
        }
    }
    for a in enumerate::depth2_family() {
        idx += 1;
        if ctx.mine(idx) {
            check_ast_texts(ctx, &a, idx, false, false, false);
            ctx.count("asts_depth2_family", 1);
        }
    }
    deep_family(ctx);
    wide_family(ctx, TAG);
    for k in 1..=6usize {
        idx += 1;
        if ctx.mine(idx) {
            let a = counter_reachability(k);
            let text = refl::pp(&a, refl::MINIMAL);
            ctx.count("many_round_fixed_points", 1);
            check_text_big(ctx, TAG, &a, &text);
        }
    }
    extreme_constants(ctx);
    crate::cli::cleanup_scratch();
}

fn replay(ctx: &mut Ctx, case: &Value) {
    match case["part"].as_str() {
        Some("text") => {
            replay_text(ctx, TAG, case);
        }
        Some("wide") => {
            let mut c2 = Ctx::new("C01", ctx.tier, ctx.seed, 0, 1);
            wide_family(&mut c2, TAG);
            for v in c2.violations {
                if v.replay == *case {
                    ctx.violation(v.key, v.what, v.replay);
                }
            }
        }
        Some("cli") => {
            let text = case["text"].as_str().unwrap_or("");
            if let Ok(a) = refl::parse(text) {
                check_cli_table(ctx, &a, text);
            }
            crate::cli::cleanup_scratch();
        }
        _ => replay_eval(ctx, case, ORACLE, TAG),
    }
    let _ = Cmp::Exactly;
}
