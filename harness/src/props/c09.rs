//! C09 — free-variable analysis is exact and bound names never leak into results.

use crate::conv::*;
use crate::enumerate::{Alpha, Gen};
use crate::refl::{self, Ast, Bin, Cmp, Sem};
use crate::robdd;
use crate::runner::{guarded, Ctx, Engine};
use serde_json::{json, Value};

pub static ENGINE: Engine = Engine {
    prop: "C09",
    level: "exploration",
    rule: "every reference-free AST with <= N nodes over a binder-heavy alphabet (names a, b, c, X used free and bound; quantifier lists [], [a], [b], [a,b], [X], [c] where c occurs nowhere else; lfp/gfp on X and on a; not, & |, if, counting) printed as text and given to the real parser under the default order, under the reversed explicit order (ids 0.. in vector order) and — one size smaller — under the reversed order handed over as a vector listed in descending id order with gapped ids: free_vars == reference FV(AST) listed in variable order; vars == every name of the text exactly once in variable order; raw2free / to_free_index map exactly the free variables to their position; every variable tested by eval() is free. Through the binary: `rsbdd -r` on every AST <= 3 (4) nodes prints every name of the text once in variable order. A re-binding family (outer binder of four kinds or with a repeated list around an inner binder of the same name, the name used again afterwards; 1 080 formulas) through the API and through `rsbdd -t` (columns = free variables). Plus and/or chains over 33 and 70 variables with binders around ids 31/32/n-1. distinct = distinct (formula text, ordering)",
    assumptions: &["reference FV = names with an occurrence not enclosed by a quantifier or fixed-point binder of the same name (harness/src/refl.rs)", "AST size bound; evaluation only where the reference finds all fixed points convergent"],
    max_shards: 64,
    run,
    replay,
};

const TAG: &str = "C09";

fn alpha() -> Alpha {
    let s = |x: &str| x.to_string();
    Alpha {
        leaves: vec![Ast::var("a"), Ast::var("b"), Ast::var("X"), Ast::True],
        not: true,
        bins: vec![Bin::And, Bin::Or],
        ite: true,
        quants: vec![(true, vec![]), (true, vec![s("a")]), (false, vec![s("b")]), (true, vec![s("a"), s("b")]), (false, vec![s("X")]), (true, vec![s("c")])],
        fps: vec![(s("X"), false), (s("X"), true), (s("a"), false)],
        cmps: vec![Cmp::AtLeast],
        nums: vec![s("1")],
        cv: true,
        max_list: 2,
    }
}

fn case(text: &str, rev: bool) -> Value {
    json!({"part": "fv", "text": text, "reversed_order": rev, "vector_descending": SCRAMBLE.with(|s| s.get())})
}

thread_local! {
    /// when set, the explicit ordering of the reversed-order runs is handed over as a vector
    /// listed in DESCENDING id order with gapped ids: the variable order is given by the ids,
    /// not by positions in the vector
    static SCRAMBLE: std::cell::Cell<bool> = const { std::cell::Cell::new(false) };
}

fn check(ctx: &mut Ctx, a: &Ast, text: &str, rev: bool) {
    ctx.begin_case(|| case(text, rev));
    ctx.count("evaluations", 1);
    let key = || format!("{TAG} {}: {text}", if rev { "reversed order" } else { "default order" });
    let names = a.names();
    // variable order: default = first appearance; reversed = explicit ordering with ids 0..
    let order: Vec<String> = if rev { names.iter().rev().cloned().collect() } else { names.clone() };
    let scramble = SCRAMBLE.with(|s| s.get());
    let ordering = if rev {
        let mut v = order.iter().enumerate().map(|(i, n)| sym(n, if scramble { 3 * i + 2 } else { i })).collect::<Vec<_>>();
        if scramble {
            v.reverse();
        }
        Some(v)
    } else {
        None
    };
    let p = match impl_parse_bytes(text.as_bytes(), ordering) {
        ImplParse::Ok(p) => p,
        ImplParse::Err(e) => {
            ctx.violation(key(), format!("well-formed formula rejected: {e}"), case(text, rev));
            return;
        }
        ImplParse::Panic(m) => {
            ctx.violation(key(), format!("parser panicked: {m}"), case(text, rev));
            return;
        }
    };
    let mut c: Vec<String> = vec![];
    let fv_ref = a.free_names();
    let want_free: Vec<String> = order.iter().filter(|n| fv_ref.contains(n)).cloned().collect();
    let got_vars = names_of(&p.vars);
    let got_free = names_of(&p.free_vars);
    if got_vars != order {
        c.push(format!("vars = {:?}, expected every name once in variable order {:?}", got_vars, order));
    }
    if got_free != want_free {
        c.push(format!("free_vars = {:?}, the free variables in variable order are {:?}", got_free, want_free));
    }
    if p.vars.windows(2).any(|w| w[0].id >= w[1].id) || p.free_vars.windows(2).any(|w| w[0].id >= w[1].id) {
        c.push("vars / free_vars are not sorted by variable id".to_string());
    }
    // column lookup
    for v in &p.vars {
        let name = v.name.as_ref();
        let want = want_free.iter().position(|n| n == name);
        let got = guarded(|| p.to_free_index(v)).ok();
        if got != want {
            c.push(format!("to_free_index({name}) = {:?}, expected {:?}", got, want));
        }
    }
    // support of the answer
    let evaluable = if names.len() <= 6 { Sem::new(&names).eval_closed(a).is_some() } else { !a.has_fp() };
    if evaluable {
        match impl_eval(&p) {
            Err(m) => c.push(format!("evaluation failed: {m}")),
            Ok(res) => {
                let mut ls = vec![];
                robdd::labels(&res, &mut ls);
                for l in ls {
                    if !want_free.contains(l.name.as_ref()) {
                        c.push(format!("the answer tests {l}, which is not a free variable"));
                    }
                }
                ctx.count("evaluated", 1);
            }
        }
    }
    if !c.is_empty() {
        c.truncate(4);
        ctx.violation(key(), c.join("; "), case(text, rev));
    } else {
        ctx.distinct(&(text, rev, scramble));
        ctx.sample(|| json!({"text": text, "free": want_free, "vars": order}));
    }
}

/// re-binding: an outer binder (exists / forall / lfp / gfp, also with the name listed twice)
/// around an inner binder of the SAME name, with the name used again after the inner binder
/// closes — on either side of the connective — and a free use outside everything
fn rebinding_family() -> Vec<Ast> {
    let x = || Ast::var("x");
    let a = || Ast::var("a");
    let binder = |kind: usize, body: Ast| -> Ast {
        match kind {
            0 => Ast::q(true, &["x"], body),
            1 => Ast::q(false, &["x"], body),
            2 => Ast::fp("x", false, body),
            3 => Ast::fp("x", true, body),
            4 => Ast::q(true, &["x", "x"], body),
            _ => Ast::q(false, &["a", "x", "a"], body),
        }
    };
    let mut out = vec![];
    for outer in 0..6 {
        for inner in 0..6 {
            for inner_body in [x(), Ast::bin(Bin::Or, x(), a()), a()] {
                for op in [Bin::And, Bin::Or] {
                    let i = binder(inner, inner_body.clone());
                    // use after the inner binder closed, inside the outer scope
                    out.push(binder(outer, Ast::bin(op, i.clone(), x())));
                    out.push(binder(outer, Ast::bin(op, x(), i.clone())));
                    out.push(binder(outer, Ast::bin(op, i.clone(), Ast::bin(Bin::Or, x(), a()))));
                    // and a free use outside everything
                    out.push(Ast::bin(op, binder(outer, i.clone()), x()));
                    out.push(Ast::bin(op, x(), binder(outer, Ast::bin(Bin::And, i.clone(), x()))));
                    // a second name that is bound in an earlier operand and free in a later one
                    let c = || Ast::var("c");
                    out.push(binder(outer, binder(inner, Ast::bin(op, Ast::q(true, &["c"], c()), c()))));
                    out.push(binder(outer, Ast::bin(op, binder(inner, Ast::q(false, &["c"], Ast::bin(Bin::Or, c(), x()))), c())));
                }
            }
        }
    }
    out
}

fn run(ctx: &mut Ctx) {
    let upto = if ctx.thorough() { 6 } else { 5 };
    let cli_upto = if ctx.thorough() { 4 } else { 3 };
    let mut g = Gen::new(alpha());
    let mut idx = 0u64;
    wide(ctx, &mut idx);
    long_names(ctx, &mut idx);
    for a in rebinding_family() {
        idx += 1;
        if ctx.mine(idx) {
            let text = refl::pp(&a, refl::MINIMAL);
            if refl::parse(&text).as_ref() != Ok(&a) {
                panic!("machinery: round trip failed for {text}");
            }
            check(ctx, &a, &text, false);
            check(ctx, &a, &text, true);
            ctx.count("rebinding_formulas", 1);
            // and through the binary: the -t header is the list of free variables
            if !a.has_fp() || Sem::new(&a.names()).eval_closed(&a).is_some() {
                let c = json!({"part": "cli-t", "text": text});
                ctx.begin_case(|| c.clone());
                ctx.count("evaluations", 1);
                let r = crate::cli::run_bin("rsbdd", &[format!("--evaluate={text}"), "-t".to_string()], None, &[]);
                match crate::cli::parse_table(&r.out()) {
                    _ if !r.ok() => ctx.violation(format!("{TAG} rsbdd -t: {text}"), format!("failed: {} {}", r.describe(), r.err_tail()), c),
                    Err(e) => ctx.violation(format!("{TAG} rsbdd -t: {text}"), format!("unreadable table: {e}"), c),
                    Ok(t) => {
                        let fv = a.free_names();
                        let want: Vec<String> = a.names().into_iter().filter(|n| fv.contains(n)).collect();
                        if t.header != want {
                            ctx.violation(format!("{TAG} rsbdd -t: {text}"), format!("table columns {:?}, free variables in variable order {:?}", t.header, want), c);
                        }
                    }
                }
            }
        }
    }
    for size in 1..=upto {
        let mut todo = vec![];
        let flush = |ctx: &mut Ctx, todo: &mut Vec<Ast>| {
            for a in todo.drain(..) {
                let text = refl::pp(&a, refl::MINIMAL);
                if refl::parse(&text).as_ref() != Ok(&a) {
                    panic!("machinery: round trip failed for {text}");
                }
                check(ctx, &a, &text, false);
                check(ctx, &a, &text, true);
                if a.size() < upto {
                    SCRAMBLE.with(|s| s.set(true));
                    check(ctx, &a, &text, true);
                    SCRAMBLE.with(|s| s.set(false));
                }
                ctx.count("asts", 1);
                // the binary's view of the full variable list: `-r` prints every name of the text
                // once, in variable order (bound-only names included)
                // (the binary evaluates the formula first: divergent fixed points are not inputs here)
                if a.size() <= cli_upto && (!a.has_fp() || Sem::new(&a.names()).eval_closed(&a).is_some()) {
                    let c = json!({"part": "cli-r", "text": text});
                    ctx.begin_case(|| c.clone());
                    ctx.count("evaluations", 1);
                    ctx.count("cli_variable_lists", 1);
                    let r = crate::cli::run_bin("rsbdd", &[format!("--evaluate={text}"), "-r".to_string()], None, &[]);
                    let listed: Vec<String> = r.out().lines().map(|l| l.trim().to_string()).filter(|l| !l.is_empty()).collect();
                    let want = a.names();
                    if !r.ok() {
                        ctx.violation(format!("{TAG} rsbdd -r: {text}"), format!("failed: {} {}", r.describe(), r.err_tail()), c);
                    } else if listed != want {
                        ctx.violation(format!("{TAG} rsbdd -r: {text}"), format!("-r printed {:?}, the names of the text in variable order are {:?}", listed, want), c);
                    }
                }
            }
        };
        g.stream(size, &mut |a| {
            idx += 1;
            if ctx.mine(idx) {
                todo.push(a);
            }
            if todo.len() > 4096 {
                flush(ctx, &mut todo);
            }
        });
        flush(ctx, &mut todo);
    }
}

/// many variables (ids beyond 32 and 64): and/or chains with binders at positions around the
/// machine-word boundaries; parse-level expectations only need the reference AST
fn wide(ctx: &mut Ctx, idx: &mut u64) {
    for n in [33usize, 70] {
        let names: Vec<String> = (0..n).map(|i| format!("v{i}")).collect();
        for op in [Bin::And, Bin::Or] {
            let chain = names.iter().map(|s| Ast::var(s)).rev().reduce(|acc, v| Ast::bin(op, v, acc)).unwrap_or(Ast::True);
            for q in [vec![0usize], vec![31], vec![32], vec![n - 1], vec![31, 32], vec![n - 1, 0], vec![32, 0, 31]] {
                for ex in [true, false] {
                    *idx += 1;
                    if !ctx.mine(*idx) {
                        continue;
                    }
                    // the binder comes AFTER a first conjunct that mentions every name, so the
                    // default numbering follows the index; and once with the binder first
                    let qa = Ast::Q(ex, q.iter().map(|i| names[*i].clone()).collect(), Box::new(chain.clone()));
                    for a in [qa.clone(), Ast::bin(Bin::And, chain.clone(), qa)] {
                        let text = refl::pp(&a, refl::MINIMAL);
                        check(ctx, &a, &text, false);
                        check(ctx, &a, &text, true);
                        ctx.count("wide_formulas", 1);
                    }
                }
            }
        }
    }
}

/// long variable names that differ only in their last character
fn long_names(ctx: &mut Ctx, idx: &mut u64) {
    for l in [7usize, 8, 15, 16, 31, 32, 33, 63, 64, 65, 127, 128, 255, 256, 300] {
        for stem in ["valve_of_the_primary_cooling_circuit_is_", "x"] {
            let base: String = stem.chars().cycle().take(l).collect();
            let (n1, n2, n3) = (format!("{base}a"), format!("{base}b"), format!("{base}"));
            for a in [
                Ast::bin(Bin::And, Ast::var(&n1), Ast::not(Ast::var(&n2))),
                Ast::bin(Bin::Or, Ast::q(true, &[n1.as_str()], Ast::bin(Bin::And, Ast::var(&n1), Ast::var(&n2))), Ast::var(&n3)),
                Ast::fp(&n1, false, Ast::bin(Bin::Or, Ast::var(&n1), Ast::bin(Bin::And, Ast::var(&n2), Ast::var(&n3)))),
            ] {
                *idx += 1;
                if ctx.mine(*idx) {
                    let text = refl::pp(&a, refl::MINIMAL);
                    check(ctx, &a, &text, false);
                    check(ctx, &a, &text, true);
                    ctx.count("long_name_formulas", 1);
                }
            }
        }
    }
}

fn replay(ctx: &mut Ctx, c: &Value) {
    let text = c["text"].as_str().unwrap_or("");
    if c["part"].as_str() == Some("cli-t") {
        if let Ok(a) = refl::parse(text) {
            let r = crate::cli::run_bin("rsbdd", &[format!("--evaluate={text}"), "-t".to_string()], None, &[]);
            match crate::cli::parse_table(&r.out()) {
                Ok(t) if r.ok() && t.header == a.names().into_iter().filter(|n| a.free_names().contains(n)).collect::<Vec<_>>() => {}
                _ => ctx.violation(format!("{TAG} rsbdd -t: {text}"), format!("the table columns are not the free variables {:?} ({})", a.free_names(), r.describe()), c.clone()),
            }
        }
        return;
    }
    if c["part"].as_str() == Some("cli-r") {
        if let Ok(a) = refl::parse(text) {
            let r = crate::cli::run_bin("rsbdd", &[format!("--evaluate={text}"), "-r".to_string()], None, &[]);
            let listed: Vec<String> = r.out().lines().map(|l| l.trim().to_string()).filter(|l| !l.is_empty()).collect();
            if !r.ok() || listed != a.names() {
                ctx.violation(format!("{TAG} rsbdd -r: {text}"), format!("-r printed {:?} ({}), the names of the text in variable order are {:?}", listed, r.describe(), a.names()), c.clone());
            }
        }
        return;
    }
    if let Ok(a) = refl::parse(text) {
        SCRAMBLE.with(|s| s.set(c["vector_descending"].as_bool().unwrap_or(false)));
        check(ctx, &a, text, c["reversed_order"].as_bool().unwrap_or(false));
        SCRAMBLE.with(|s| s.set(false));
    }
}
