//! C10 — the printed truth table is a faithful partition of the assignment space.

use crate::cli::{Channel, Inv};
use crate::enumerate::permutations;
use crate::formulas::cli_formula_set;
use crate::refl::{self, Ast};
use crate::runner::{Ctx, Engine};
use crate::tablecheck::*;
use serde_json::{json, Value};

pub static ENGINE: Engine = Engine {
    prop: "C10",
    level: "exploration",
    rule: "the real rsbdd binary on EVERY formula with <= 3 (4) AST nodes over the CLI alphabet (4 leaves, not, & | => ^, if, 4 quantifier heads, lfp/gfp, 5 counting comparisons; names bound, free, both) with -t under filter Any/True/False; on every formula <= 2 (3) nodes additionally: all 15 accepted filter spellings and 6 rejected near-misses, the three input channels (--evaluate, file, stdin; byte-identical stdout), every permutation / ordered subset / one-name superset (unused name before, between, after) of its names as ordering file, -v, -t -v together under each filter, -t -b 1, -t -b 3 (byte-identical to -t), and on a 14-formula core the full cross product spelling x channel x ordering x output; ten formulas with five or six free variables and two with names of 38 and 86 characters under three filters, -v and four orderings; and the option lattice {-t,-v,-t -v} x -f x -c x -m x -b x ordering x channel on a ten-formula core against the pipeline evaluate -> -c -> -m computed through the library API; tables of and/or chains over 7..100 variables judged without a truth table (each row's cube determines the value, rows disjoint, covered assignments add up); diagrams over four variables given as Shannon-expansion text through -t: quick = every function one of whose cofactors with respect to the top variable is arbitrary while the other depends on at most one variable (both roles) plus all functions of three of the variables, thorough = EVERY one of the 65 536 functions, also under -f t, -f f and -v; a 185-member family of six-variable functions; inputs of 4 KiB .. 4 MiB (blank, newline or comment padding) on the file and stdin channels; benchmark repetition counts -b 2..2048 around powers of two on the 14-formula core with -t, -v and -t -f true. Oracle: header = reference free variables in variable order; rows pairwise disjoint cubes; result column = reference value on every assignment covered; union = all / satisfying / falsifying assignments; -v lines denote exactly the satisfying assignments. distinct = distinct (argv, stdout) pairs",
    assumptions: &["only the |-separated cells of stdout are read (layout is free)", "reference semantics and free-variable analysis of harness/src/refl.rs; -b 0 and -g are outside the property"],
    max_shards: 64,
    run,
    replay,
};

const TAG: &str = "C10";

pub const SPELLINGS: [(&str, Filter); 15] = [
    ("true", Filter::True),
    ("True", Filter::True),
    ("t", Filter::True),
    ("T", Filter::True),
    ("1", Filter::True),
    ("false", Filter::False),
    ("False", Filter::False),
    ("f", Filter::False),
    ("F", Filter::False),
    ("0", Filter::False),
    ("any", Filter::Any),
    ("Any", Filter::Any),
    ("a", Filter::Any),
    ("A", Filter::Any),
    ("*", Filter::Any),
];
const REJECTED: [&str; 6] = ["TRUE", "yes", "", "tt", "2", "ANY"];

#[derive(Clone, Copy, Debug, PartialEq, Eq)]
enum Mode {
    Table(Filter),
    Vars,
    /// -t and -v together: the table under the filter AND all satisfying rows from -v
    Both(Filter),
    Reject,
}

fn expect_of(a: &Ast) -> Option<Expect> {
    let names = a.names();
    if names.len() > 6 {
        return None;
    }
    let want = refl::Sem::new(&names).eval_closed(a)?;
    Some(Expect { free: a.free_names(), names, want })
}

fn case(inv: &Inv, mode: Mode) -> Value {
    json!({"part": "run", "inv": inv.to_json(), "mode": match mode { Mode::Table(Filter::Any) => "any", Mode::Table(Filter::True) => "true", Mode::Table(Filter::False) => "false", Mode::Vars => "vars", Mode::Both(Filter::Any) => "both-any", Mode::Both(Filter::True) => "both-true", Mode::Both(Filter::False) => "both-false", Mode::Reject => "reject" }})
}

/// run one invocation and judge its stdout; returns stdout for cross-run comparisons
fn check_run(ctx: &mut Ctx, inv: &Inv, mode: Mode) -> Option<Vec<u8>> {
    ctx.begin_case(|| case(inv, mode));
    ctx.count("evaluations", 1);
    let text = String::from_utf8_lossy(&inv.formula).into_owned();
    let key = format!("{TAG} {}", inv.key());
    let Ok(a) = refl::parse(&text) else { return None };
    let Some(exp) = expect_of(&a) else { return None };
    let r = inv.run();
    ctx.distinct(&(inv.key(), &r.run.stdout));
    if mode == Mode::Reject {
        if r.run.ok() || r.run.crashed() || r.run.out().contains('|') {
            ctx.violation(key, format!("a filter value that is not one of the accepted spellings was not refused ({}; stdout {:?})", r.run.describe(), r.run.out()), case(inv, mode));
        }
        return None;
    }
    if !r.run.ok() {
        ctx.violation(key, format!("rsbdd failed: {} {}", r.run.describe(), r.run.err_tail()), case(inv, mode));
        return None;
    }
    let ord = inv.ordering.as_ref().map(|o| String::from_utf8_lossy(o).into_owned());
    let order = var_order(&exp.names, ord.as_deref());
    let complaints = match mode {
        Mode::Table(f) => judge_table(&r.run.out(), &exp, &order, f),
        Mode::Vars => judge_vars(&r.run.out(), &exp, &order),
        Mode::Both(f) => {
            let mut c = judge_table(&r.run.out(), &exp, &order, f);
            c.extend(judge_vars(&r.run.out(), &exp, &order));
            c
        }
        Mode::Reject => vec![],
    };
    if !complaints.is_empty() {
        ctx.violation(key, complaints.join("; "), case(inv, mode));
        return None;
    }
    ctx.sample(|| json!({"argv": inv.key(), "stdout": r.run.out()}));
    Some(r.run.stdout)
}

pub fn orderings_for(names: &[String]) -> Vec<String> {
    // every permutation of every subset (ordered subsets), plus supersets with an unused name
    let n = names.len();
    let mut out: Vec<String> = vec![];
    for mask in 0..(1usize << n) {
        let sub: Vec<&String> = (0..n).filter(|i| mask & (1 << i) != 0).map(|i| &names[i]).collect();
        for p in permutations(sub.len()) {
            let l: Vec<String> = p.iter().map(|i| sub[*i].clone()).collect();
            out.push(l.join(" "));
        }
    }
    // supersets: the unused name zz at every position of the reversed full list
    let rev: Vec<String> = names.iter().rev().cloned().collect();
    for pos in 0..=rev.len() {
        let mut l = rev.clone();
        l.insert(pos, "zz".to_string());
        out.push(l.join("\n"));
    }
    out.sort();
    out.dedup();
    out
}

fn filter_opts(f: Filter, spelled: &str) -> Vec<String> {
    let _ = f;
    vec!["-t".into(), "-f".into(), spelled.into()]
}

fn base(text: &str, opts: Vec<String>) -> Inv {
    Inv { formula: text.as_bytes().to_vec(), channel: Channel::Evaluate, ordering: None, opts, dot: false, parsetree: false }
}

fn family_a(ctx: &mut Ctx, text: &str) {
    check_run(ctx, &base(text, vec!["-t".into()]), Mode::Table(Filter::Any));
    check_run(ctx, &base(text, filter_opts(Filter::True, "true")), Mode::Table(Filter::True));
    check_run(ctx, &base(text, filter_opts(Filter::False, "False")), Mode::Table(Filter::False));
}

fn family_b(ctx: &mut Ctx, text: &str, names: &[String]) {
    // spellings
    for (s, f) in SPELLINGS {
        check_run(ctx, &base(text, vec!["-t".into(), format!("--filter={s}")]), Mode::Table(f));
    }
    for s in REJECTED {
        check_run(ctx, &base(text, vec!["-t".into(), format!("--filter={s}")]), Mode::Reject);
    }
    // channels: identical stdout
    let mut outs = vec![];
    for ch in [Channel::Evaluate, Channel::File, Channel::Stdin] {
        let mut inv = base(text, vec!["-t".into()]);
        inv.channel = ch;
        outs.push(check_run(ctx, &inv, Mode::Table(Filter::Any)));
    }
    if let (Some(a), Some(b), Some(c)) = (&outs[0], &outs[1], &outs[2]) {
        if a != b || a != c {
            ctx.violation(format!("{TAG} channels: {text}"), "stdout differs between --evaluate, file and stdin".into(), case(&base(text, vec!["-t".into()]), Mode::Table(Filter::Any)));
        }
    }
    // the same formula spread over several lines (one token per line): all channels must read
    // the whole input
    if text.contains(' ') {
        let multi = text.replace(' ', "\n") + "\n";
        let mut mouts = vec![];
        for ch in [Channel::Evaluate, Channel::File, Channel::Stdin] {
            let mut inv = base(&multi, vec!["-t".into()]);
            inv.channel = ch;
            mouts.push(check_run(ctx, &inv, Mode::Table(Filter::Any)));
        }
        if let (Some(a), Some(b), Some(c)) = (&mouts[0], &mouts[1], &mouts[2]) {
            if a != b || a != c {
                ctx.violation(format!("{TAG} channels (multi-line): {text}"), "stdout differs between --evaluate, file and stdin for a formula spread over several lines".into(), case(&base(&multi, vec!["-t".into()]), Mode::Table(Filter::Any)));
            }
        }
    }
    // word spellings (and, or, not, ..) with a lone CR, CRLF or a tab as the only separator
    // between tokens: any such character separates tokens, on every channel
    if let Ok(a) = refl::parse(text) {
        let toks = refl::to_tokens(&a, refl::MINIMAL);
        let wordy = refl::render(&toks, &mut |n| n - 1);
        if wordy.contains(' ') {
            for sep in ["\r", "\r\n", "\t"] {
                let t = wordy.replace(' ', sep) + sep;
                let mut wouts = vec![];
                for ch in [Channel::Evaluate, Channel::File, Channel::Stdin] {
                    let mut inv = base(&t, vec!["-t".into()]);
                    inv.channel = ch;
                    wouts.push(check_run(ctx, &inv, Mode::Table(Filter::Any)));
                }
                if let (Some(x), Some(y), Some(z)) = (&wouts[0], &wouts[1], &wouts[2]) {
                    if x != y || x != z {
                        ctx.violation(format!("{TAG} channels (separator {sep:?}): {wordy}"), "stdout differs between --evaluate, file and stdin".into(), case(&base(&t, vec!["-t".into()]), Mode::Table(Filter::Any)));
                    }
                }
            }
        }
    }
    // benchmark repetitions: identical stdout
    for n in ["1", "3"] {
        let inv = base(text, vec!["-t".into(), "-b".into(), n.into()]);
        let o = check_run(ctx, &inv, Mode::Table(Filter::Any));
        if let (Some(a), Some(o)) = (&outs[0], &o) {
            if a != o {
                ctx.violation(format!("{TAG} -b {n}: {text}"), "stdout with -b N differs from stdout without".into(), case(&inv, Mode::Table(Filter::Any)));
            }
        }
    }
    // -v, and -t -v together under every filter (the filter applies to the table only)
    check_run(ctx, &base(text, vec!["-v".into()]), Mode::Vars);
    check_run(ctx, &base(text, vec!["-t".into(), "-v".into()]), Mode::Both(Filter::Any));
    check_run(ctx, &base(text, vec!["-v".into(), "-t".into(), "-f".into(), "t".into()]), Mode::Both(Filter::True));
    check_run(ctx, &base(text, vec!["-t".into(), "-v".into(), "-f".into(), "False".into()]), Mode::Both(Filter::False));
    // orderings
    for o in orderings_for(names) {
        let mut inv = base(text, vec!["-t".into()]);
        inv.ordering = Some(o.as_bytes().to_vec());
        check_run(ctx, &inv, Mode::Table(Filter::Any));
        let mut inv = base(text, filter_opts(Filter::True, "1"));
        inv.ordering = Some(o.as_bytes().to_vec());
        inv.channel = Channel::File;
        check_run(ctx, &inv, Mode::Table(Filter::True));
        let mut inv = base(text, vec!["-v".into()]);
        inv.ordering = Some(o.as_bytes().to_vec());
        check_run(ctx, &inv, Mode::Vars);
    }
}

pub const CORE: [&str; 14] = [
    "a", "true", "a & b", "b | a", "a ^ c", "- b => a", "exists a # a & b", "forall a # a | b", "[a, b] = 1", "[b, a] < 1", "if a then b else c", "lfp X # X | a", "gfp X # X & b", "(exists a # a) & a & b",
];

/// formulas with five and six free variables (tables of up to 64 rows)
pub const BIG: [&str; 12] = [
    "[a, b, c, d, e] = 2",
    "(a | b) & (c | d) & (e | f)",
    "a ^ b ^ c ^ d ^ e ^ f",
    "[a, b, c] < [d, e, f]",
    "if a then b & c else d | e",
    "exists c # (a & c) | (b & -c) | (d ^ e)",
    "forall a # a => (b | c | d | e)",
    "(a => b) & (b => c) & (c => d) & (d => e) & (e => f)",
    "lfp X # a | (X & b) | (exists c # X & d & c)",
    "-(a & b & c & d & e & f)",
    "request_from_client_number_01_is_valid & -request_from_client_number_02_is_valid | fallback_enabled",
    "valve_of_the_primary_cooling_circuit_is_open_and_the_secondary_pump_has_been_started_a ^ valve_of_the_primary_cooling_circuit_is_open_and_the_secondary_pump_has_been_started_b",
];

pub fn big_orderings(names: &[String]) -> Vec<String> {
    let rev: Vec<String> = names.iter().rev().cloned().collect();
    let mut inter: Vec<String> = names.iter().step_by(2).cloned().collect();
    inter.extend(names.iter().skip(1).step_by(2).cloned());
    let mut rot = names.to_vec();
    rot.rotate_left(names.len() / 2);
    let mut sup = rev.clone();
    sup.insert(1, "zz".to_string());
    vec![rev.join(" "), inter.join(" "), rot.join("\n"), sup.join(" ")]
}

fn family_big(ctx: &mut Ctx, text: &str) {
    let Ok(a) = refl::parse(text) else { return };
    let names = a.names();
    family_a(ctx, text);
    check_run(ctx, &base(text, vec!["-v".into()]), Mode::Vars);
    for o in big_orderings(&names) {
        for (opts, mode) in [(vec!["-t".to_string()], Mode::Table(Filter::Any)), (filter_opts(Filter::False, "f"), Mode::Table(Filter::False)), (vec!["-v".to_string()], Mode::Vars)] {
            let mut inv = base(text, opts);
            inv.ordering = Some(o.as_bytes().to_vec());
            check_run(ctx, &inv, mode);
        }
    }
}

fn family_c(ctx: &mut Ctx, text: &str, idx: &mut u64) {
    let Ok(a) = refl::parse(text) else { return };
    let names = a.names();
    let mut ords: Vec<Option<String>> = vec![None];
    ords.extend(orderings_for(&names).into_iter().map(Some));
    for (s, f) in SPELLINGS {
        for ch in [Channel::Evaluate, Channel::File, Channel::Stdin] {
            for o in &ords {
                for out in 0..3 {
                    *idx += 1;
                    if !ctx.mine(*idx) {
                        continue;
                    }
                    let (opts, mode) = match out {
                        0 => (vec!["-t".to_string(), "-f".into(), s.into()], Mode::Table(f)),
                        1 => (vec!["-v".to_string(), "-f".into(), s.into()], Mode::Vars),
                        _ => (vec!["-t".to_string(), "-b".into(), "2".into(), "-f".into(), s.into()], Mode::Table(f)),
                    };
                    let mut inv = base(text, opts);
                    inv.channel = ch;
                    inv.ordering = o.as_ref().map(|x| x.as_bytes().to_vec());
                    check_run(ctx, &inv, mode);
                    ctx.count("cross_product_runs", 1);
                }
            }
        }
    }
}


/// Option interplay: every combination of {-t, -v, -t -v} x -f {none,t,f} x -c {none,t,f} x
/// {-m} x {-b none,1,2} x {no ordering, reversed} x 3 channels on a formula core. The oracle is
/// the documented pipeline computed through the library API (evaluate, drop choices, take a
/// model), whose result the table / -v output must partition faithfully.
fn pipeline_lattice(ctx: &mut Ctx, idx: &mut u64) {
    use crate::conv::{impl_eval, tt_named, ImplParse};
    let core = ["a & b", "a | b", "(a & b) | (-a & c)", "a ^ b ^ c", "[a, b, c] = 1", "if a then b else c", "exists c # (a & c) | (b & -c)", "a & -a", "a => b", "lfp X # a | (X & b)"];
    for text in core {
        let Ok(a) = refl::parse(text) else { continue };
        let Some(exp0) = expect_of(&a) else { continue };
        let names = exp0.names.clone();
        let rev: String = names.iter().rev().cloned().collect::<Vec<_>>().join(" ");
        for cval in 0..3usize {
            for m in [false, true] {
              for ord in [None, Some(rev.clone())] {
                // expected diagram through the API, under the SAME variable order (which cube
                // `model` picks depends on the order)
                let ordering = ord.as_ref().map(|o: &String| o.split_whitespace().enumerate().map(|(i, n)| crate::conv::sym(n, i)).collect::<Vec<_>>());
                let ImplParse::Ok(p) = crate::conv::impl_parse_bytes(text.as_bytes(), ordering) else { continue };
                let Ok(mut g) = impl_eval(&p) else { continue };
                let env = p.env.clone();
                if cval > 0 {
                    let f = if cval == 1 { rsbdd::TruthTableEntry::True } else { rsbdd::TruthTableEntry::False };
                    match crate::runner::guarded(|| env.retain_choice_bottom_up(g.clone(), f)) {
                        Ok(x) => g = x,
                        Err(_) => continue,
                    }
                }
                if m {
                    match crate::runner::guarded(|| env.model(g.clone())) {
                        Ok(x) => g = x,
                        Err(_) => continue,
                    }
                }
                let Ok(want) = tt_named(&g, &names) else { continue };
                let exp = Expect { names: names.clone(), want, free: exp0.free.clone() };
                for tv in 0..3usize {
                    for fval in 0..3usize {
                        for b in 0..3usize {
                            {
                                *idx += 1;
                                if !ctx.mine(*idx) {
                                    continue;
                                }
                                let mut opts: Vec<String> = vec![];
                                if tv != 1 {
                                    opts.push("-t".into());
                                }
                                if tv != 0 {
                                    opts.push("-v".into());
                                }
                                let filter = [Filter::Any, Filter::True, Filter::False][fval];
                                if fval > 0 {
                                    opts.extend(["-f".to_string(), ["", "True", "f"][fval].to_string()]);
                                }
                                if cval > 0 {
                                    opts.extend(["-c".to_string(), ["", "t", "false"][cval].to_string()]);
                                }
                                if m {
                                    opts.push("-m".into());
                                }
                                if b > 0 {
                                    opts.extend(["-b".to_string(), b.to_string()]);
                                }
                                let mut inv = base(text, opts);
                                inv.channel = [Channel::Evaluate, Channel::File, Channel::Stdin][(*idx % 3) as usize];
                                inv.ordering = ord.as_ref().map(|o| o.as_bytes().to_vec());
                                ctx.begin_case(|| json!({"part": "pipeline", "inv": inv.to_json()}));
                                ctx.count("evaluations", 1);
                                ctx.count("pipeline_runs", 1);
                                let r = inv.run();
                                ctx.distinct(&(inv.key(), &r.run.stdout));
                                let key = format!("{TAG} {}", inv.key());
                                if !r.run.ok() {
                                    ctx.violation(key, format!("rsbdd failed: {} {}", r.run.describe(), r.run.err_tail()), json!({"part": "pipeline", "inv": inv.to_json()}));
                                    continue;
                                }
                                let order = var_order(&names, ord.as_deref());
                                let mut c = vec![];
                                if tv != 1 {
                                    c.extend(judge_table(&r.run.out(), &exp, &order, filter));
                                }
                                if tv != 0 {
                                    c.extend(judge_vars(&r.run.out(), &exp, &order));
                                }
                                if !c.is_empty() {
                                    ctx.violation(key, format!("against the pipeline evaluate -> drop choices (-c) -> model (-m) computed through the library: {}", c.join("; ")), json!({"part": "pipeline", "inv": inv.to_json()}));
                                }
                            }
                        }
                    }
                }
              }
            }
        }
    }
}


/// Tables with up to 100 columns: and/or chains. Without a truth table the oracle is: every
/// row's cube determines the formula's value (sound three-valued evaluation) and that value
/// is the result column; rows are pairwise disjoint; the numbers of assignments covered add
/// up to 2^n (Any) or to the number of satisfying / falsifying assignments.
/// Shannon expansion of a truth table as formula text (`if x then .. else ..`, levels on
/// which the function does not depend are skipped): the evaluated diagram is the reduced
/// ordered diagram of the function, so running this over ALL truth tables drives the table
/// printer with every diagram over the given variables.
pub fn shannon_text(tt: u64, names: &[&str]) -> String {
    fn go(tt: u64, names: &[&str], level: usize, fixed: usize) -> String {
        if level == names.len() {
            return if (tt >> fixed) & 1 == 1 { "true".into() } else { "false".into() };
        }
        let t = go(tt, names, level + 1, fixed | (1 << level));
        let e = go(tt, names, level + 1, fixed);
        if t == e {
            t
        } else if t == "true" && e == "false" {
            names[level].to_string()
        } else if t == "false" && e == "true" {
            format!("-{}", names[level])
        } else {
            format!("(if {} then {} else {})", names[level], t, e)
        }
    }
    go(tt, names, 0, 0)
}

/// Boolean functions of four variables (diagrams over a, b, c, d) through `-t`: in thorough
/// all 65 536 (also under both filters and `-v`), in quick a one-sided family of 4 350; and a
/// 185-member family of six variables
fn function_space_tables(ctx: &mut Ctx, idx: &mut u64) {
    let th = ctx.thorough();
    // quick: one cofactor with respect to `a` arbitrary (all 256 functions of b, c, d), the
    // other depending on at most one variable (8 functions), in both roles; plus every
    // function of three variables on {b, c, d} and on {a, b, c}. thorough: all 65 536.
    let simple: [u64; 8] = [0x00, 0xff, 0xaa, 0x55, 0xcc, 0x33, 0xf0, 0x0f];
    // spread a table over (b, c, d) into the positions of assignments with a = 0 / a = 1
    let lift = |f: u64, a: u64| -> u64 { (0..8).filter(|i| (f >> i) & 1 == 1).map(|i| 1u64 << (2 * i + a)).sum() };
    let mut wanted = vec![false; 65536];
    for g in 0..256u64 {
        for &sfn in &simple {
            wanted[(lift(g, 1) | lift(sfn, 0)) as usize] = true;
            wanted[(lift(sfn, 1) | lift(g, 0)) as usize] = true;
        }
        // independent of a; independent of d (table over a, b, c repeated for d = 0 / 1)
        wanted[(lift(g, 1) | lift(g, 0)) as usize] = true;
        wanted[(g | (g << 8)) as usize] = true;
    }
    for tt in 0..65536u64 {
        if !th && !wanted[tt as usize] {
            continue;
        }
        *idx += 1;
        if !ctx.mine(*idx) {
            continue;
        }
        let text = shannon_text(tt, &["a", "b", "c", "d"]);
        ctx.count("functions_k4", 1);
        check_run(ctx, &base(&text, vec!["-t".into()]), Mode::Table(Filter::Any));
        if th || tt % 16 == 9 {
            check_run(ctx, &base(&text, filter_opts(Filter::True, "t")), Mode::Table(Filter::True));
            check_run(ctx, &base(&text, filter_opts(Filter::False, "f")), Mode::Table(Filter::False));
            check_run(ctx, &base(&text, vec!["-v".into()]), Mode::Vars);
        }
    }
    for tt in crate::closure::family6() {
        *idx += 1;
        if !ctx.mine(*idx) {
            continue;
        }
        let text = shannon_text(tt, &["p1", "p2", "p3", "p4", "p5", "p6"]);
        ctx.count("functions_family6", 1);
        family_a(ctx, &text);
        check_run(ctx, &base(&text, vec!["-v".into()]), Mode::Vars);
    }
}

fn wide_tables(ctx: &mut Ctx, idx: &mut u64) {
    use crate::cli::{parse_table, Cell};
    use rustc_hash::FxHashMap;
    for n in [7usize, 33, 64, 65, 100] {
        for (op, is_or) in [("|", true), ("&", false)] {
            for (fi, filter) in [Filter::Any, Filter::True, Filter::False].into_iter().enumerate() {
                for rev in [false, true] {
                    *idx += 1;
                    if !ctx.mine(*idx) {
                        continue;
                    }
                    let names: Vec<String> = (1..=n).map(|i| format!("in_{i:03}")).collect();
                    let text = names.join(&format!(" {op} "));
                    let Ok(ast) = refl::parse(&text) else { continue };
                    let mut opts = vec!["-t".to_string()];
                    if fi > 0 {
                        opts.extend(["-f".to_string(), ["", "t", "F"][fi].to_string()]);
                    }
                    let mut inv = base(&text, opts);
                    inv.channel = Channel::File;
                    let order: Vec<String> = if rev { names.iter().rev().cloned().collect() } else { names.clone() };
                    if rev {
                        inv.ordering = Some(order.join(" ").into_bytes());
                    }
                    let case = json!({"part": "wide", "n": n, "or": is_or, "filter": fi, "rev": rev});
                    ctx.begin_case(|| case.clone());
                    ctx.count("evaluations", 1);
                    ctx.count("wide_tables", 1);
                    let key = format!("{TAG} rsbdd -t on a chain of {n} variables joined by {op} (filter {:?}{})", filter, if rev { ", reversed ordering" } else { "" });
                    let r = inv.run();
                    ctx.distinct(&(n, is_or, fi, rev, &r.run.stdout));
                    if !r.run.ok() {
                        ctx.violation(key, format!("rsbdd failed: {} {}", r.run.describe(), r.run.err_tail()), case);
                        continue;
                    }
                    let t = match parse_table(&r.run.out()) {
                        Err(e) => {
                            ctx.violation(key, format!("unreadable table: {e}"), case);
                            continue;
                        }
                        Ok(t) => t,
                    };
                    let mut c = vec![];
                    if t.header != order {
                        c.push(format!("header is not the {n} free variables in variable order (got {} columns, first {:?})", t.header.len(), t.header.first()));
                    } else {
                        let mut covered: u128 = 0;
                        for (cells, res) in &t.rows {
                            let env: FxHashMap<String, bool> = cells.iter().zip(t.header.iter()).filter(|(c, _)| **c != Cell::Any).map(|(c, h)| (h.clone(), *c == Cell::T)).collect();
                            match crate::puzzles::eval3(&ast, &env) {
                                Some(v) if v == *res => {}
                                other => {
                                    c.push(format!("a row's cube gives the formula the value {:?} but the result column says {res}", other));
                                    break;
                                }
                            }
                            covered += 1u128 << cells.iter().filter(|c| **c == Cell::Any).count();
                        }
                        for (i, (a, _)) in t.rows.iter().enumerate() {
                            for (b, _) in &t.rows[..i] {
                                if a.iter().zip(b.iter()).all(|(x, y)| *x == Cell::Any || *y == Cell::Any || x == y) {
                                    c.push("two rows overlap".to_string());
                                }
                            }
                        }
                        // satisfying assignments: or-chain 2^n - 1, and-chain 1
                        let total: u128 = 1u128 << n;
                        let sat: u128 = if is_or { total - 1 } else { 1 };
                        let want = match filter {
                            Filter::Any => total,
                            Filter::True => sat,
                            Filter::False => total - sat,
                        };
                        if covered != want {
                            c.push(format!("the rows cover {covered} assignments, expected {want}"));
                        }
                    }
                    if !c.is_empty() {
                        c.truncate(3);
                        ctx.violation(key, c.join("; "), case);
                    }
                }
            }
        }
    }
}

fn run(ctx: &mut Ctx) {
    let th = ctx.thorough();
    let set = cli_formula_set(if th { 4 } else { 3 });
    let b_upto = if th { 3 } else { 2 };
    for (i, (a, names, _)) in set.iter().enumerate() {
        if !ctx.mine(i as u64) {
            continue;
        }
        let text = refl::pp(a, refl::MINIMAL);
        family_a(ctx, &text);
        ctx.count("formulas", 1);
        if a.size() <= b_upto {
            family_b(ctx, &text, names);
            ctx.count("formulas_with_configuration_sweep", 1);
        }
    }
    let mut idx = 0u64;
    for f in CORE {
        family_c(ctx, f, &mut idx);
    }
    // benchmark repetition counts around powers of two: the answer never depends on -b
    for f in CORE {
        for n in [2usize, 4, 5, 8, 15, 16, 17, 32, 64, 100, 128, 255, 256, 257, 511, 512, 513, 768, 1000, 1024, 2048] {
            for (opts, mode) in [(vec!["-t".to_string()], Mode::Table(Filter::Any)), (vec!["-v".to_string()], Mode::Vars), (vec!["-t".to_string(), "-f".into(), "true".into()], Mode::Table(Filter::True))] {
                idx += 1;
                if !ctx.mine(idx) {
                    continue;
                }
                let mut o = opts.clone();
                o.extend(["-b".to_string(), n.to_string()]);
                check_run(ctx, &base(f, o), mode);
                ctx.count("repetition_count_runs", 1);
            }
        }
    }
    pipeline_lattice(ctx, &mut idx);
    wide_tables(ctx, &mut idx);
    function_space_tables(ctx, &mut idx);
    // stray characters (backslash, $, @, ;, ~) directly in front of names: they separate tokens
    // and mean nothing, on every channel alike
    for text in ["nb & -a | \\nb & c", "\\ta | t & \\tb", "n\\n & -n1", "a \\\\ b | \\", "$a & @b | ;c", "~a | a~b", "a\\tb & \\rc"] {
        let mut outs = vec![];
        idx += 1;
        let mine = ctx.mine(idx);
        for ch in [Channel::Evaluate, Channel::File, Channel::Stdin] {
            let mut inv = base(text, vec!["-t".into()]);
            inv.channel = ch;
            outs.push(if mine { check_run(ctx, &inv, Mode::Table(Filter::Any)) } else { None });
        }
        if let (Some(x), Some(y), Some(z)) = (&outs[0], &outs[1], &outs[2]) {
            if x != y || x != z {
                ctx.violation(format!("{TAG} channels (stray characters): {text}"), "stdout differs between --evaluate, file and stdin".into(), case(&base(text, vec!["-t".into()]), Mode::Table(Filter::Any)));
            }
        }
    }
    // large inputs on the file and stdin channels: 4 KiB .. 2 MiB of blanks, newlines or one
    // long comment between (or behind) the tokens never change the table
    for k in [12u32, 16, 20, 21] {
        for pad in 0..3usize {
            for (pos, ch) in [(0usize, Channel::File), (0, Channel::Stdin), (1, Channel::File), (1, Channel::Stdin)] {
                idx += 1;
                if !ctx.mine(idx) {
                    continue;
                }
                let n = 1usize << k;
                let filler = match pad {
                    0 => " ".repeat(n),
                    1 => "\n".repeat(n),
                    _ => format!("\"{}\"", "c".repeat(n)),
                };
                let text = if pos == 0 { format!("a{filler}& -b | c") } else { format!("a & -b{filler}| c\n{filler}") };
                let mut inv = base(&text, vec!["-t".into()]);
                inv.channel = ch;
                check_run(ctx, &inv, Mode::Table(Filter::Any));
                ctx.count("large_inputs", 1);
            }
        }
    }
    for f in BIG {
        idx += 1;
        if ctx.mine(idx) {
            family_big(ctx, f);
            ctx.count("big_formulas", 1);
        }
    }
    crate::cli::cleanup_scratch();
}

fn replay(ctx: &mut Ctx, c: &Value) {
    if c["part"].as_str() == Some("wide") {
        let mut c2 = Ctx::new("C10", ctx.tier, ctx.seed, 0, 1);
        let mut idx = 0u64;
        wide_tables(&mut c2, &mut idx);
        for v in c2.violations {
            if v.replay == *c {
                ctx.violation(v.key, v.what, v.replay);
            }
        }
        crate::cli::cleanup_scratch();
        return;
    }
    if c["part"].as_str() == Some("pipeline") {
        let mut c2 = Ctx::new("C10", ctx.tier, ctx.seed, 0, 1);
        let mut idx = 0u64;
        pipeline_lattice(&mut c2, &mut idx);
        for v in c2.violations {
            if v.replay["inv"]["opts"] == c["inv"]["opts"] && v.replay["inv"]["formula"] == c["inv"]["formula"] && v.replay["inv"]["ordering"] == c["inv"]["ordering"] {
                ctx.violation(v.key, v.what, v.replay);
            }
        }
        crate::cli::cleanup_scratch();
        return;
    }
    let inv = Inv::from_json(&c["inv"]);
    let mode = match c["mode"].as_str() {
        Some("true") => Mode::Table(Filter::True),
        Some("false") => Mode::Table(Filter::False),
        Some("vars") => Mode::Vars,
        Some("both-any") => Mode::Both(Filter::Any),
        Some("both-true") => Mode::Both(Filter::True),
        Some("both-false") => Mode::Both(Filter::False),
        Some("reject") => Mode::Reject,
        _ => Mode::Table(Filter::Any),
    };
    check_run(ctx, &inv, mode);
    crate::cli::cleanup_scratch();
}
