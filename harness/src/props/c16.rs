//! C16 — max_clique_gen emits a formula whose models are exactly the maximum cliques.

use crate::cli::{parse_table, row_assignments, run_bin};
use crate::enumerate::for_each_seq;
use crate::puzzles::eval_total;
use crate::refl;
use crate::runner::{Ctx, Engine};
use rustc_hash::FxHashMap;
use serde_json::{json, Value};

pub static ENGINE: Engine = Engine {
    prop: "C16",
    level: "exploration",
    rule: "the real max_clique_gen binary on EVERY edge set over the vertex names {a,b,c} including self-loops (512 graphs; thorough: every loop-free edge set over {a,b,c,d}, 4096 graphs), every edge LIST of <= 3 edges over {a,b,c} (duplicates, both listing orders), the empty file, Windows line endings, and name families {x1, y', _z}, {a, v_a, b} (a vertex named like another vertex's copy) and {a_b, c, a, b_c} (colliding concatenations) ; every undirected graph on five vertices; structured graphs (paths, cycles, stars, complete, wheels, two cliques, bipartite) on 6..10 vertices with one-, two- and three-digit vertex names, graphs on 12..20 vertices (well-formedness, variable set, exact cliques with -a) and on 257 and 300 vertices (clique constraint and maximality premise judged on every vertex set of size <= 2); x {-u} x {-a}. Oracle: the emitted text is parsed by the reference parser and evaluated by brute force over all assignments (quantifier by enumeration); its models, read as vertex sets with unmentioned vertices unconstrained, must equal the brute-force maximum cliques (all cliques with -a) under the directed / undirected reading; the real `rsbdd -t -f true` on the same text must list the same sets. Names differing only in letter case: every edge list <= 3 over {A, a, b, c} x -u. Layouts: CRLF, fields quoted the CSV way, no final newline. distinct = distinct (edge list, flags)",
    assumptions: &["clique = vertex set whose distinct members are pairwise adjacent; adjacency without -u needs both directions, with -u either", "vertex names are identifiers; graphs of <= 4 vertices"],
    max_shards: 64,
    run,
    replay,
};

const TAG: &str = "C16";

thread_local! {
    /// layout of the edge list of the case in progress: "\n", "\r\n", "Q" (every field in double
    /// quotes, the CSV way) or "N" (no newline after the last line)
    static LAYOUT: std::cell::RefCell<String> = std::cell::RefCell::new("\n".to_string());
}

fn case(edges: &[(String, String)], u: bool, all: bool) -> Value {
    json!({"part": "graph", "edges": edges.iter().map(|(a, b)| vec![a.clone(), b.clone()]).collect::<Vec<_>>(), "undirected": u, "all": all, "layout": LAYOUT.with(|l| l.borrow().clone())})
}

fn expected_sets(verts: &[String], edges: &[(String, String)], u: bool, all: bool) -> Vec<usize> {
    let n = verts.len();
    let has = |x: &String, y: &String| edges.iter().any(|(a, b)| a == x && b == y);
    let adj = |i: usize, j: usize| if u { has(&verts[i], &verts[j]) || has(&verts[j], &verts[i]) } else { has(&verts[i], &verts[j]) && has(&verts[j], &verts[i]) };
    let cliques: Vec<usize> = (0..(1usize << n)).filter(|s| (0..n).all(|i| (0..n).all(|j| i >= j || s & (1 << i) == 0 || s & (1 << j) == 0 || adj(i, j)))).collect();
    if all {
        cliques
    } else {
        let m = cliques.iter().map(|s| s.count_ones()).max().unwrap_or(0);
        cliques.into_iter().filter(|s| s.count_ones() == m).collect()
    }
}

fn check_graph(ctx: &mut Ctx, edges: &[(String, String)], u: bool, all: bool, with_rsbdd: bool) {
    check_graph_eol(ctx, edges, u, all, with_rsbdd, "\n")
}

fn check_graph_eol(ctx: &mut Ctx, edges: &[(String, String)], u: bool, all: bool, with_rsbdd: bool, eol: &str) {
    LAYOUT.with(|l| *l.borrow_mut() = eol.to_string());
    ctx.begin_case(|| case(edges, u, all));
    ctx.count("evaluations", 1);
    ctx.distinct(&(edges, u, all));
    let key = format!("{TAG} edges {:?}{}{}{}", edges.iter().map(|(a, b)| format!("{a},{b}")).collect::<Vec<_>>(), if u { " -u" } else { "" }, if all { " -a" } else { "" }, match eol { "\n" => "", "Q" => " (quoted fields)", "N" => " (no final newline)", _ => " (CRLF line endings)" });
    let mut verts: Vec<String> = vec![];
    for (a, b) in edges {
        for v in [a, b] {
            if !verts.contains(v) {
                verts.push(v.clone());
            }
        }
    }
    let csv: String = match eol {
        "Q" => edges.iter().map(|(a, b)| format!("\"{a}\",\"{b}\"\n")).collect(),
        "N" => edges.iter().map(|(a, b)| format!("{a},{b}")).collect::<Vec<_>>().join("\n"),
        _ => edges.iter().map(|(a, b)| format!("{a},{b}{eol}")).collect(),
    };
    let mut args = vec![];
    if u {
        args.push("-u".to_string());
    }
    if all {
        args.push("-a".to_string());
    }
    // channel by case: edge list on stdin / as INPUT file / INPUT file and an existing OUTPUT file
    let g = crate::cli::run_gen("max_clique_gen", &args, csv.as_bytes(), true, (edges.len() + u as usize + 2 * all as usize) % 3);
    if !g.ok() {
        ctx.violation(key, format!("max_clique_gen failed: {} {}", g.describe(), g.err_tail()), case(edges, u, all));
        return;
    }
    let text = g.out();
    let ast = match refl::parse(&text) {
        Ok(a) => a,
        Err(e) => {
            ctx.violation(key, format!("the output is not a well-formed formula: {e}\n{text}"), case(edges, u, all));
            return;
        }
    };
    let free = ast.free_names();
    if let Some(x) = free.iter().find(|f| !verts.contains(f)) {
        ctx.violation(key, format!("the formula has a free variable '{x}' that is not a vertex"), case(edges, u, all));
        return;
    }
    let n = verts.len();
    let want = expected_sets(&verts, edges, u, all);
    // reference models of the emitted text, unmentioned vertices unconstrained
    let mut got: Vec<usize> = vec![];
    for s in 0..(1usize << n) {
        let mut env: FxHashMap<String, bool> = FxHashMap::default();
        for (i, v) in verts.iter().enumerate() {
            env.insert(v.clone(), s & (1 << i) != 0);
        }
        if eval_total(&ast, &mut env) {
            got.push(s);
        }
    }
    let show = |sets: &[usize]| sets.iter().map(|s| format!("{{{}}}", (0..n).filter(|i| s & (1 << i) != 0).map(|i| verts[i].clone()).collect::<Vec<_>>().join(","))).collect::<Vec<_>>().join(" ");
    if got != want {
        ctx.violation(key, format!("models of the emitted formula: {} ; {} cliques: {}", show(&got), if all { "all" } else { "maximum" }, show(&want)), case(edges, u, all));
        return;
    }
    if with_rsbdd {
        ctx.count("rsbdd_runs", 1);
        let r = crate::cli::rsbdd(&["-t".to_string(), "-f".into(), "true".into()], Some(text.as_bytes()));
        if !r.ok() {
            ctx.violation(key, format!("rsbdd failed on the generated formula: {} {}", r.describe(), r.err_tail()), case(edges, u, all));
            return;
        }
        match parse_table(&r.out()) {
            Err(e) => ctx.violation(key, format!("unreadable table: {e}"), case(edges, u, all)),
            Ok(t) => {
                let cols: Vec<Option<usize>> = t.header.iter().map(|h| verts.iter().position(|v| v == h)).collect();
                if cols.iter().any(Option::is_none) {
                    ctx.violation(key, format!("table column is not a vertex: {:?}", t.header), case(edges, u, all));
                    return;
                }
                let mut listed = vec![false; 1 << n];
                for (cells, res) in &t.rows {
                    if !*res {
                        continue;
                    }
                    for a in row_assignments(cells) {
                        // extend to all vertices: unmentioned ones unconstrained
                        let mut base = 0usize;
                        for (ci, c) in cols.iter().enumerate() {
                            if (a >> ci) & 1 == 1 {
                                base |= 1 << c.unwrap_or(0);
                            }
                        }
                        let mentioned: usize = cols.iter().map(|c| 1usize << c.unwrap_or(0)).sum();
                        for s in 0..(1usize << n) {
                            if s & mentioned == base {
                                listed[s] = true;
                            }
                        }
                    }
                }
                let got2: Vec<usize> = (0..(1usize << n)).filter(|s| listed[*s]).collect();
                if got2 != want {
                    ctx.violation(key, format!("rsbdd lists {} ; expected {}", show(&got2), show(&want)), case(edges, u, all));
                }
            }
        }
    }
    ctx.sample(|| json!({"edges": csv, "undirected": u, "all": all, "cliques": show(&want)}));
}

/// graphs too large for the brute-force quantifier: well-formedness and variable set always,
/// exact model set (all cliques) with -a where no quantifier is involved
fn check_graph_large(ctx: &mut Ctx, edges: &[(String, String)], u: bool, all: bool) {
    ctx.begin_case(|| case(edges, u, all));
    ctx.count("evaluations", 1);
    ctx.count("large_graphs", 1);
    ctx.distinct(&(edges, u, all));
    let key = format!("{TAG} {} edges on {} vertices{}{}", edges.len(), edges.iter().flat_map(|(a, b)| [a, b]).collect::<std::collections::BTreeSet<_>>().len(), if u { " -u" } else { "" }, if all { " -a" } else { "" });
    let mut verts: Vec<String> = vec![];
    for (a, b) in edges {
        for v in [a, b] {
            if !verts.contains(v) {
                verts.push(v.clone());
            }
        }
    }
    let csv: String = edges.iter().map(|(a, b)| format!("{a},{b}\n")).collect();
    let mut args = vec![];
    if u {
        args.push("-u".to_string());
    }
    if all {
        args.push("-a".to_string());
    }
    let g = run_bin("max_clique_gen", &args, Some(csv.as_bytes()), &[]);
    if !g.ok() {
        ctx.violation(key, format!("max_clique_gen failed: {} {}", g.describe(), g.err_tail()), case(edges, u, all));
        return;
    }
    let ast = match refl::parse(&g.out()) {
        Ok(a) => a,
        Err(e) => {
            ctx.violation(key, format!("the output is not a well-formed formula: {e}"), case(edges, u, all));
            return;
        }
    };
    let free = ast.free_names();
    if let Some(x) = free.iter().find(|f| !verts.contains(f)) {
        ctx.violation(key, format!("the formula has a free variable '{x}' that is not a vertex"), case(edges, u, all));
        return;
    }
    if !all {
        // every vertex must occur in the final comparison and have a bound copy
        let names = ast.names();
        if names.len() != 2 * verts.len() {
            ctx.violation(key, format!("{} names in the formula, expected the {} vertices and one copy each", names.len(), verts.len()), case(edges, u, all));
        }
        return;
    }
    let n = verts.len();
    let has = |x: &String, y: &String| edges.iter().any(|(a, b)| a == x && b == y);
    let adj: Vec<Vec<bool>> = (0..n).map(|i| (0..n).map(|j| if u { has(&verts[i], &verts[j]) || has(&verts[j], &verts[i]) } else { has(&verts[i], &verts[j]) && has(&verts[j], &verts[i]) }).collect()).collect();
    for sset in 0..(1usize << n) {
        let clique = (0..n).all(|i| sset & (1 << i) == 0 || (0..i).all(|j| sset & (1 << j) == 0 || adj[i][j]));
        let mut env: FxHashMap<String, bool> = FxHashMap::default();
        for (i, v) in verts.iter().enumerate() {
            env.insert(v.clone(), sset & (1 << i) != 0);
        }
        if eval_total(&ast, &mut env) != clique {
            ctx.violation(key, format!("vertex set {sset:#b} is {}a clique but the formula says {}", if clique { "" } else { "not " }, !clique), case(edges, u, all));
            return;
        }
    }
}

/// Graphs with more than 256 vertices (path plus two chords). The full truth function is out
/// of reach, so the emitted formula is judged on every vertex set of size <= 2 (exactly the
/// sets that decide cliquehood of a graph): its top-level conjuncts other than the maximality
/// quantifier must hold exactly on the cliques among them, and so must the premise of the
/// quantified implication under the vertex -> copy renaming read off its two counting lists.
/// Conjuncts are re-evaluated only when they mention a chosen vertex (their value otherwise is
/// the one under the all-false assignment, computed once).
fn check_graph_huge(ctx: &mut Ctx, n: usize, u: bool, all: bool) {
    let hcase = json!({"part": "huge", "n": n, "undirected": u, "all": all});
    ctx.begin_case(|| hcase.clone());
    ctx.count("evaluations", 1);
    ctx.count("huge_graphs", 1);
    ctx.distinct(&("huge", n, u, all));
    let key = format!("{TAG} path with chords on {n} vertices{}{}", if u { " -u" } else { "" }, if all { " -a" } else { "" });
    let name = |i: usize| format!("x{i}");
    let mut e_idx: Vec<(usize, usize)> = (0..n - 1).map(|i| if i % 3 == 0 { (i + 1, i) } else { (i, i + 1) }).collect();
    e_idx.push((0, n - 1));
    e_idx.push((n / 2, 3));
    if !u {
        // directed reading: an edge counts only if both orientations are listed; list some twice
        for i in (0..n - 1).step_by(2) {
            e_idx.push((i + 1, i));
            e_idx.push((i, i + 1));
        }
    }
    let csv: String = e_idx.iter().map(|(a, b)| format!("{},{}\n", name(*a), name(*b))).collect();
    let mut args = vec![];
    if u {
        args.push("-u".to_string());
    }
    if all {
        args.push("-a".to_string());
    }
    let g = run_bin("max_clique_gen", &args, Some(csv.as_bytes()), &[]);
    if !g.ok() {
        ctx.violation(key, format!("max_clique_gen failed: {} {}", g.describe(), g.err_tail()), hcase);
        return;
    }
    let text = g.out();
    let has = |x: usize, y: usize| e_idx.iter().any(|(a, b)| *a == x && *b == y);
    let mut adj = vec![vec![false; n]; n];
    for i in 0..n {
        for j in 0..n {
            adj[i][j] = if u { has(i, j) || has(j, i) } else { has(i, j) && has(j, i) };
        }
    }
    // deep conjunction chains: parse, walk and drop on a thread with a large stack
    let verdict: Result<Option<String>, String> = std::thread::scope(|sc| {
        std::thread::Builder::new()
            .stack_size(1 << 30)
            .spawn_scoped(sc, || -> Result<Option<String>, String> {
                refl::MAX_DEPTH.with(|d| d.set(50_000_000));
                let ast = refl::parse(&text).map_err(|e| format!("the output is not a well-formed formula: {e}"))?;
                let cs = crate::puzzles::conjuncts(&ast);
                let (quant, plain): (Vec<&refl::Ast>, Vec<&refl::Ast>) = cs.iter().partition(|c| matches!(c, refl::Ast::Q(..)));
                let judge = |conj: &[&refl::Ast], vname: &dyn Fn(usize) -> String, what: &str| -> Option<String> {
                    let idx: FxHashMap<String, usize> = (0..n).map(|i| (vname(i), i)).collect();
                    let mut by_v: Vec<Vec<usize>> = vec![vec![]; n];
                    let mut base: Vec<bool> = vec![];
                    let mut env: FxHashMap<String, bool> = (0..n).map(|i| (vname(i), false)).collect();
                    for (ci, c) in conj.iter().enumerate() {
                        for v in c.free_names() {
                            match idx.get(&v) {
                                Some(i) => by_v[*i].push(ci),
                                None => return Some(format!("{what} mentions '{v}', which is not a vertex")),
                            }
                        }
                        base.push(eval_total(c, &mut env));
                    }
                    let nbase_false = base.iter().filter(|b| !**b).count();
                    let mut eval_set = |set: &[usize]| -> bool {
                        for v in set {
                            env.insert(vname(*v), true);
                        }
                        let mut touched: Vec<usize> = set.iter().flat_map(|v| by_v[*v].iter().copied()).collect();
                        touched.sort_unstable();
                        touched.dedup();
                        let untouched_false = nbase_false - touched.iter().filter(|ci| !base[**ci]).count();
                        let r = untouched_false == 0 && touched.iter().all(|ci| eval_total(conj[*ci], &mut env));
                        for v in set {
                            env.insert(vname(*v), false);
                        }
                        r
                    };
                    if !eval_set(&[]) {
                        return Some(format!("{what} rejects the empty vertex set"));
                    }
                    for i in 0..n {
                        if !eval_set(&[i]) {
                            return Some(format!("{what} rejects the single vertex {}", vname(i)));
                        }
                        for j in 0..i {
                            let clique = adj[i][j];
                            if eval_set(&[j, i]) != clique {
                                return Some(format!("{what} says {} about the pair {{{}, {}}}, which is {}adjacent", !clique, vname(j), vname(i), if clique { "" } else { "not " }));
                            }
                        }
                    }
                    None
                };
                if let Some(c) = judge(&plain, &name, "the clique constraint") {
                    return Ok(Some(c));
                }
                if all {
                    if !quant.is_empty() {
                        return Ok(Some("a quantifier although every clique was asked for (-a)".into()));
                    }
                    return Ok(None);
                }
                if quant.len() != 1 {
                    return Ok(Some(format!("{} maximality quantifiers", quant.len())));
                }
                // forall copies # premise => [vertices] >= [copies]
                if let refl::Ast::Q(false, vs, body) = quant[0] {
                    if let refl::Ast::Bin(refl::Bin::Implies, prem, concl) = body.as_ref() {
                        if let refl::Ast::CV(refl::Cmp::AtLeast, l, r) = concl.as_ref() {
                            let ln: Vec<String> = l.iter().filter_map(|x| if let refl::Ast::Var(v) = x { Some(v.clone()) } else { None }).collect();
                            let rn: Vec<String> = r.iter().filter_map(|x| if let refl::Ast::Var(v) = x { Some(v.clone()) } else { None }).collect();
                            let mut sorted_l = ln.clone();
                            sorted_l.sort();
                            sorted_l.dedup();
                            let mut sorted_r = rn.clone();
                            sorted_r.sort();
                            sorted_r.dedup();
                            let mut sorted_vs = vs.clone();
                            sorted_vs.sort();
                            sorted_vs.dedup();
                            if ln.len() != n || rn.len() != n || sorted_l.len() != n || sorted_r.len() != n || sorted_vs != sorted_r || !(0..n).all(|i| sorted_l.binary_search(&name(i)).is_ok()) {
                                return Ok(Some(format!("the size comparison does not relate the {n} vertices to {n} distinct quantified copies ({} / {} operands, {} quantified names)", ln.len(), rn.len(), vs.len())));
                            }
                            let copy_of: FxHashMap<String, String> = ln.iter().cloned().zip(rn.iter().cloned()).collect();
                            let cname = |i: usize| copy_of[&name(i)].clone();
                            let pc = crate::puzzles::conjuncts(prem);
                            if let Some(c) = judge(&pc, &cname, "the premise of the maximality condition") {
                                return Ok(Some(c));
                            }
                            return Ok(None);
                        }
                    }
                }
                Ok(Some("SHAPE".into()))
            })
            .map_err(|e| format!("machinery: cannot start the evaluation thread: {e}"))
            .and_then(|h| h.join().map_err(|_| "machinery: evaluation thread panicked".to_string()))
            .and_then(|r| r)
    });
    match verdict {
        Ok(None) => {}
        Ok(Some(c)) if c == "SHAPE" => ctx.count("huge_graphs_shape_unrecognised", 1),
        Ok(Some(c)) => ctx.violation(key, c, hcase),
        Err(e) if e.starts_with("machinery") => panic!("{e}"),
        Err(e) => ctx.violation(key, e, hcase),
    }
}

fn pairs(names: &[&str], loops: bool) -> Vec<(String, String)> {
    let mut v = vec![];
    for a in names {
        for b in names {
            if loops || a != b {
                v.push((a.to_string(), b.to_string()));
            }
        }
    }
    v
}

fn run(ctx: &mut Ctx) {
    let mut idx = 0u64;
    let mut idx2 = 1u64 << 40;
    let th = ctx.thorough();
    let mut go = |ctx: &mut Ctx, edges: &[(String, String)], rs: bool| {
        for u in [false, true] {
            for all in [false, true] {
                idx += 1;
                if ctx.mine(idx) {
                    check_graph(ctx, edges, u, all, rs);
                }
            }
        }
    };
    // every edge set over {a,b,c} with self-loops
    let p3 = pairs(&["a", "b", "c"], true);
    for mask in 0..(1usize << p3.len()) {
        let edges: Vec<(String, String)> = (0..p3.len()).filter(|i| mask & (1 << i) != 0).map(|i| p3[i].clone()).collect();
        go(ctx, &edges, true);
    }
    // every edge list <= 3 (order, duplicates)
    for len in 1..=3 {
        let mut lists = vec![];
        for_each_seq(p3.len(), len, &mut |_, d| lists.push(d.to_vec()));
        for d in lists {
            let edges: Vec<(String, String)> = d.iter().map(|i| p3[*i].clone()).collect();
            go(ctx, &edges, false);
        }
    }
    // Windows line endings in the edge list
    for mask in 0..(1usize << p3.len()) {
        let edges: Vec<(String, String)> = (0..p3.len()).filter(|i| mask & (1 << i) != 0).map(|i| p3[i].clone()).collect();
        if ctx.mine(mask as u64) {
            check_graph_eol(ctx, &edges, mask % 2 == 0, mask % 4 >= 2, false, "\r\n");
            // fields quoted the CSV way; no newline after the last line
            check_graph_eol(ctx, &edges, mask % 2 == 1, mask % 4 >= 2, false, "Q");
            check_graph_eol(ctx, &edges, mask % 4 < 2, mask % 2 == 0, false, "N");
        }
    }
    // names whose concatenations collide: (a_b, c) and (a, b_c) both spell a_b_c
    {
        let names = ["a_b", "c", "a", "b_c"];
        let mut und = vec![];
        for i in 0..4 {
            for j in (i + 1)..4 {
                und.push((names[i].to_string(), names[j].to_string()));
            }
        }
        // every unordered pair absent, listed forwards, or listed backwards: 3^6 edge lists
        let mut code = vec![0u8; und.len()];
        loop {
            let edges: Vec<(String, String)> = (0..und.len()).filter(|i| code[*i] != 0).map(|i| if code[i] == 1 { und[i].clone() } else { (und[i].1.clone(), und[i].0.clone()) }).collect();
            go(ctx, &edges, false);
            let mut k = 0;
            loop {
                if k == code.len() {
                    break;
                }
                code[k] += 1;
                if code[k] < 3 {
                    break;
                }
                code[k] = 0;
                k += 1;
            }
            if k == code.len() {
                break;
            }
        }
    }
    // names that differ only in letter case: every edge list of <= 3 lines over {A, a, b, c}
    // (so that the two spellings can interleave), maximum cliques with and without -u
    {
        let p4 = pairs(&["A", "a", "b", "c"], false);
        for len in 1..=3 {
            let mut lists = vec![];
            for_each_seq(p4.len(), len, &mut |_, d| lists.push(d.to_vec()));
            for d in lists {
                let edges: Vec<(String, String)> = d.iter().map(|i| p4[*i].clone()).collect();
                for u in [true, false] {
                    idx2 += 1;
                    if ctx.mine(idx2) {
                        check_graph(ctx, &edges, u, false, false);
                    }
                }
            }
        }
    }
    // name families
    for names in [["x1", "y'", "_z"], ["a", "v_a", "b"], ["v_v_a", "v_a", "a"], ["source", "target", "hub"], ["from", "to", "x"], ["src", "dst", "id"], ["Source", "Target", "weight"], ["v1", "v01", "v001"], ["n2", "n02", "n10"], ["a", "v_a", "v__a"], ["v___b", "v__b", "b"]] {
        let p = pairs(&names, false);
        for mask in 0..(1usize << p.len()) {
            let edges: Vec<(String, String)> = (0..p.len()).filter(|i| mask & (1 << i) != 0).map(|i| p[i].clone()).collect();
            go(ctx, &edges, mask % 7 == 0);
        }
    }
    // five vertices: every undirected graph (each pair listed once), maximum cliques up to size 5
    {
        let names = ["a", "b", "c", "d", "e"];
        let mut und = vec![];
        for i in 0..5 {
            for j in (i + 1)..5 {
                und.push(if (i * 3 + j) % 2 == 0 { (names[i].to_string(), names[j].to_string()) } else { (names[j].to_string(), names[i].to_string()) });
            }
        }
        for mask in 0..(1usize << und.len()) {
            let edges: Vec<(String, String)> = (0..und.len()).filter(|i| mask & (1 << i) != 0).map(|i| und[i].clone()).collect();
            // -u with and without -a on every graph (directed reading in thorough as well)
            for (fi, (u, all)) in (if th { vec![(true, false), (true, true), (false, false), (false, true)] } else { vec![(true, false), (true, true)] }).into_iter().enumerate() {
                if ctx.mine((mask * 4 + fi) as u64) {
                    check_graph(ctx, &edges, u, all, false);
                }
            }
        }
    }
    // structured graphs on 6..8 vertices with one- and two-digit vertex names
    {
        let name = |i: usize| format!("v{}", [1usize, 10, 11, 2, 100, 3, 12, 20, 21, 4, 101, 5][i]);
        let mut graphs: Vec<(String, Vec<(usize, usize)>)> = vec![];
        for n in [6usize, 7, 8, 9, 10] {
            graphs.push((format!("path{n}"), (0..n - 1).map(|i| (i, i + 1)).collect()));
            graphs.push((format!("cycle{n}"), (0..n).map(|i| (i, (i + 1) % n)).collect()));
            graphs.push((format!("star{n}"), (1..n).map(|i| (0, i)).collect()));
            graphs.push((format!("complete{n}"), (0..n).flat_map(|i| ((i + 1)..n).map(move |j| (i, j))).collect()));
            graphs.push((format!("wheel{n}"), (1..n).map(|i| (0, i)).chain((1..n).map(|i| (i, if i + 1 < n { i + 1 } else { 1 }))).collect()));
            graphs.push((format!("two-cliques{n}"), (0..n / 2).flat_map(|i| ((i + 1)..n / 2).map(move |j| (i, j))).chain((n / 2..n).flat_map(|i| ((i + 1)..n).map(move |j| (i, j)))).chain([(0, n - 1)]).collect()));
            graphs.push((format!("bipartite{n}"), (0..n / 2).flat_map(|i| (n / 2..n).map(move |j| (i, j))).collect()));
        }
        for (_, es) in graphs {
            let edges: Vec<(String, String)> = es.iter().enumerate().map(|(k, (i, j))| if k % 2 == 0 { (name(*i), name(*j)) } else { (name(*j), name(*i)) }).collect();
            go(ctx, &edges, false);
        }
    }
    // 12..20 vertices: the emitted text must at least be a well-formed formula over the right
    // variables (all four flag sets); with -a (no quantifier) the models are checked exactly
    for n in [12usize, 16, 20] {
        let edges: Vec<(String, String)> = (0..n).map(|i| (format!("w{i}"), format!("w{}", (i + 1) % n))).chain((0..n / 2).map(|i| (format!("w{}", i + n / 2), format!("w{i}")))).collect();
        for (u, all) in [(true, true), (true, false), (false, false), (false, true)] {
            idx2 += 1;
            if ctx.mine(idx2) {
                check_graph_large(ctx, &edges, u, all);
            }
        }
    }
    // more than 256 vertices
    for n in [257usize, 300] {
        for (u, all) in [(true, true), (false, true), (true, false), (false, false)] {
            idx2 += 1;
            if ctx.mine(idx2) {
                check_graph_huge(ctx, n, u, all);
            }
        }
    }
    if th {
        let p4 = pairs(&["a", "b", "c", "d"], false);
        for mask in 0..(1usize << p4.len()) {
            let edges: Vec<(String, String)> = (0..p4.len()).filter(|i| mask & (1 << i) != 0).map(|i| p4[i].clone()).collect();
            go(ctx, &edges, mask % 5 == 0);
        }
    }
}

fn replay(ctx: &mut Ctx, c: &Value) {
    if c["part"].as_str() == Some("huge") {
        check_graph_huge(ctx, c["n"].as_u64().unwrap_or(257) as usize, c["undirected"].as_bool().unwrap_or(false), c["all"].as_bool().unwrap_or(false));
        return;
    }
    let edges: Vec<(String, String)> = c["edges"].as_array().map(|a| a.iter().map(|e| (e[0].as_str().unwrap_or("").to_string(), e[1].as_str().unwrap_or("").to_string())).collect()).unwrap_or_default();
    let nv = edges.iter().flat_map(|(a, b)| [a, b]).collect::<std::collections::BTreeSet<_>>().len();
    if nv > 10 {
        check_graph_large(ctx, &edges, c["undirected"].as_bool().unwrap_or(false), c["all"].as_bool().unwrap_or(false));
        return;
    }
    check_graph_eol(ctx, &edges, c["undirected"].as_bool().unwrap_or(false), c["all"].as_bool().unwrap_or(false), true, c["layout"].as_str().unwrap_or("\n"));
}
