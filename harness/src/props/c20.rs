//! C20 — dropping forced choices (-c) is sound in the direction of the chosen filter.

use crate::cli::{parse_table, project_ref, table_sem, Inv};
use crate::formulas::cli_formula_set;
use crate::refl::{self, depends_tt};
use crate::robdd;
use crate::runner::{guarded, Ctx, Engine};
use crate::space::Space;
use rsbdd::TruthTableEntry;
use serde_json::{json, Value};
use std::rc::Rc;

pub static ENGINE: Engine = Engine {
    prop: "C20",
    level: "exploration",
    rule: "every Boolean function f over 4 ordered variables with gaps (65536) and over 3 (256) x filter in {True, False, Any}: g = retain_choice_bottom_up(f, filter); True => every assignment satisfying f satisfies g; False => g implies f; Any => g == f; g ordered and reduced; g tests only variables f semantically depends on; g and all its sub-diagrams are the shared table nodes. CLI: `rsbdd -c t|f|a -t` on every formula <= 3 (4) nodes of the CLI alphabet: the function printed covers (True) / is covered by (False) / equals (Any) the reference; and -c combined with -f true / -f false / -m (what is listed must stay sound in the direction of -c). distinct = distinct (f, filter, g) + distinct CLI outputs",
    assumptions: &["truth tables by an independent walker", "k <= 4 exhaustively"],
    max_shards: 64,
    run,
    replay,
};

const TAG: &str = "C20";

fn syms_for(k: usize) -> Vec<usize> {
    if k == 3 {
        vec![1, 2, 8]
    } else {
        vec![0, 3, 4, 9]
    }
}

fn check_f(ctx: &mut Ctx, sp: &Space<usize>, tt: u64, foreign: bool) {
    let k = sp.k;
    let f = sp.get(tt);
    let env = sp.env.clone();
    for (fi, filter) in [TruthTableEntry::True, TruthTableEntry::False, TruthTableEntry::Any].into_iter().enumerate() {
        let case = json!({"part": "api", "k": k, "f": tt, "filter": fi, "foreign": foreign});
        ctx.begin_case(|| case.clone());
        ctx.count("evaluations", 1);
        let key = format!("{TAG} api syms={:?}: retain(f={tt:#x}, {:?})", sp.syms, filter);
        let g = match guarded(|| env.retain_choice_bottom_up(f.clone(), filter)) {
            Err(p) => {
                ctx.violation(key, format!("retain panicked: {p}"), case);
                continue;
            }
            Ok(g) => g,
        };
        ctx.distinct(&(k, tt, fi, robdd::show(&g)));
        let mut c = vec![];
        match sp.tt(&g) {
            Err(e) => c.push(e),
            Ok(gt) => match filter {
                TruthTableEntry::True if tt & !gt != 0 => c.push(format!("filter True: an assignment satisfying f does not satisfy the result (f={tt:#x}, result={gt:#x})")),
                TruthTableEntry::False if gt & !tt != 0 => c.push(format!("filter False: the result does not imply f (f={tt:#x}, result={gt:#x})")),
                TruthTableEntry::Any if *g != *f => c.push("filter Any: result is not f itself".to_string()),
                _ => {}
            },
        }
        if let Err(e) = robdd::is_ordered_reduced(&g) {
            c.push(e);
        }
        let mut ls = vec![];
        robdd::labels(&g, &mut ls);
        for v in ls {
            match sp.pos(&v) {
                Some(i) if depends_tt(k, i, tt) => {}
                _ => c.push(format!("result tests variable {v} which f does not depend on")),
            }
        }
        let nodes = env.nodes.borrow();
        for n in robdd::distinct_nodes(&g).into_iter().filter(|_| !foreign) {
            if !nodes.get(n.as_ref()).map(|e| Rc::ptr_eq(e, &n)).unwrap_or(false) {
                c.push(format!("sub-diagram {} of the result is not the shared table node", robdd::show(&n)));
                break;
            }
        }
        drop(nodes);
        if !c.is_empty() {
            ctx.violation(key, c.join("; "), case);
        }
        ctx.sample(|| json!({"f": robdd::show(&f), "filter": format!("{:?}", filter), "result": robdd::show(&g)}));
    }
}

fn check_cli(ctx: &mut Ctx, text: &str, which: usize) {
    let case = json!({"part": "cli", "text": text, "filter": which});
    ctx.begin_case(|| case.clone());
    ctx.count("evaluations", 1);
    ctx.count("cli_runs", 1);
    let Ok(a) = refl::parse(text) else { return };
    let names = a.names();
    let Some(want) = refl::Sem::new(&names).eval_closed(&a) else { return };
    let spell = [["-c", "t"], ["-c", "False"], ["--retain-choices", "any"]][which];
    let r = Inv::new(text, &[spell[0], spell[1], "-t"]).run();
    let key = format!("{TAG} rsbdd {} {} -t: {text}", spell[0], spell[1]);
    if !r.run.ok() {
        ctx.violation(key, format!("rsbdd failed: {} {}", r.run.describe(), r.run.err_tail()), case);
        return;
    }
    ctx.distinct(&(which, &r.run.stdout));
    let t = match parse_table(&r.run.out()) {
        Err(e) => {
            ctx.violation(key, format!("unreadable table: {e}"), case);
            return;
        }
        Ok(t) => t,
    };
    let refv = match project_ref(want, &names, &t.header) {
        Err(e) => {
            ctx.violation(key, e, case);
            return;
        }
        Ok(v) => v,
    };
    let ts = table_sem(&t);
    for asg in 0..(1usize << ts.k) {
        if ts.true_cover[asg] + ts.false_cover[asg] != 1 {
            ctx.violation(key, format!("assignment {asg:#b} of {:?} is covered by {} rows", t.header, ts.true_cover[asg] + ts.false_cover[asg]), case);
            return;
        }
        let printed = ts.true_cover[asg] == 1;
        let bad = match which {
            0 => refv[asg] && !printed,
            1 => printed && !refv[asg],
            _ => printed != refv[asg],
        };
        if bad {
            ctx.violation(key, format!("assignment {asg:#b} of {:?}: formula is {}, table after dropping choices says {printed}", t.header, refv[asg]), case);
            return;
        }
    }
}


/// `-c` together with a row filter `-f` or with `-m`: what is listed must still be sound
fn check_cli_combo(ctx: &mut Ctx, text: &str, c_true: bool, mode: usize) {
    // mode 0: -f true, 1: -f false, 2: -m
    let case = json!({"part": "cli-combo", "text": text, "c_true": c_true, "mode": mode});
    ctx.begin_case(|| case.clone());
    ctx.count("evaluations", 1);
    ctx.count("cli_runs", 1);
    let Ok(a) = refl::parse(text) else { return };
    let names = a.names();
    let Some(want) = refl::Sem::new(&names).eval_closed(&a) else { return };
    let cval = if c_true { "true" } else { "f" };
    let mut opts: Vec<&str> = vec!["-c", cval, "-t"];
    match mode {
        0 => opts.extend(["-f", "T"]),
        1 => opts.extend(["-f", "0"]),
        _ => opts.push("-m"),
    }
    let r = Inv::new(text, &opts).run();
    let key = format!("{TAG} rsbdd {} : {text}", opts.join(" "));
    if !r.run.ok() {
        ctx.violation(key, format!("rsbdd failed: {} {}", r.run.describe(), r.run.err_tail()), case);
        return;
    }
    ctx.distinct(&(c_true, mode, &r.run.stdout));
    let t = match parse_table(&r.run.out()) {
        Err(e) => {
            ctx.violation(key, format!("unreadable table: {e}"), case);
            return;
        }
        Ok(t) => t,
    };
    let refv = match project_ref(want, &names, &t.header) {
        Err(e) => {
            ctx.violation(key, e, case);
            return;
        }
        Ok(v) => v,
    };
    let ts = table_sem(&t);
    for asg in 0..(1usize << ts.k) {
        let (lt, lf) = (ts.true_cover[asg] > 0, ts.false_cover[asg] > 0);
        // g = retain(f): -c true gives g >= f, -c false gives g <= f
        let bad = match (mode, c_true) {
            // rows of g that are True
            (0, true) => (refv[asg] && !lt) || lf,
            (0, false) => (lt && !refv[asg]) || lf,
            // rows of g that are False
            (1, true) => (lf && refv[asg]) || lt,
            (1, false) => (!refv[asg] && !lf) || lt,
            // model of g: under -c false every satisfying row of the model satisfies f
            (_, false) => lt && !refv[asg],
            (_, true) => false,
        };
        if bad {
            ctx.violation(key, format!("assignment {asg:#b} of {:?}: formula is {}, listed as true={lt} false={lf}", t.header, refv[asg]), case);
            return;
        }
    }
}

/// diagrams 100 .. 1600 levels deep (a chain of literals ending in a two-variable choice):
/// filter True must give a diagram implied by f, filter False one that implies f, Any f itself —
/// judged on the assignment family of `closure::deep_assignments`; the result mentions only
/// variables of f and is ordered
fn deep_retain(ctx: &mut Ctx) {
    use crate::closure::{deep_assignments, walk_usize};
    let mut idx = 1u64 << 42;
    for n in [100usize, 511, 512, 513, 600, 1000, 1600] {
        for shape in 0..6usize {
            for (fi, filter) in [TruthTableEntry::True, TruthTableEntry::False, TruthTableEntry::Any].into_iter().enumerate() {
                idx += 1;
                if !ctx.mine(idx) {
                    continue;
                }
                let case = json!({"part": "deep", "n": n, "shape": shape, "filter": fi});
                ctx.begin_case(|| case.clone());
                ctx.count("evaluations", 1);
                ctx.count("deep_retain_cases", 1);
                let key = format!("{TAG} retain {:?} on a chain of {n} literals (shape {shape})", filter);
                let env = rsbdd::bdd::BDDEnv::<usize>::new();
                let r = guarded(|| -> Option<String> {
                    let lit = |i: usize| match shape % 3 {
                        0 => env.var(i),
                        1 => env.not(env.var(i)),
                        _ => if i % 2 == 0 { env.var(i) } else { env.not(env.var(i)) },
                    };
                    let conj = shape < 3;
                    let tail = if conj { env.or(env.var(n), env.var(n + 1)) } else { env.and(env.var(n), env.var(n + 1)) };
                    let f = (0..n).rev().fold(tail, |acc, i| if conj { env.and(lit(i), acc) } else { env.or(lit(i), acc) });
                    let g = env.retain_choice_bottom_up(f.clone(), filter);
                    let mut sup = vec![];
                    robdd::labels(&g, &mut sup);
                    if let Some(v) = sup.iter().find(|v| **v > n + 1) {
                        return Some(format!("the result mentions variable {v}, which f does not depend on"));
                    }
                    if fi == 2 && !robdd::same_by(&f, &g, &|a, b| a == b) {
                        return Some("filter Any did not return f itself".to_string());
                    }
                    for a in deep_assignments(n) {
                        let (vf, vg) = (walk_usize(&f, a.as_ref()), walk_usize(&g, a.as_ref()));
                        if fi == 0 && vf && !vg {
                            return Some("filter True: an assignment satisfying f does not satisfy the result".to_string());
                        }
                        if fi == 1 && vg && !vf {
                            return Some("filter False: an assignment satisfying the result does not satisfy f".to_string());
                        }
                    }
                    None
                });
                match r {
                    Err(p) => ctx.violation(key, format!("panicked: {p}"), case),
                    Ok(Some(m)) => ctx.violation(key, m, case),
                    Ok(None) => {}
                }
            }
        }
    }
}

fn run(ctx: &mut Ctx) {
    deep_retain(ctx);
    for k in [3usize, 4] {
        match Space::<usize>::by_interning(&syms_for(k)) {
            Err(e) => ctx.violation(format!("{TAG} building operands"), e, json!({"part": "api", "k": k, "f": 0, "filter": 0})),
            Ok(sp) => {
                for tt in 0..sp.nfun() as u64 {
                    if ctx.mine(tt) {
                        check_f(ctx, &sp, tt, false);
                    }
                }
            }
        }
        let spf = Space::<usize>::by_foreign(&syms_for(k));
        for tt in 0..spf.nfun() as u64 {
            if ctx.mine(tt + 1) {
                check_f(ctx, &spf, tt, true);
            }
        }
    }
    let set = cli_formula_set(if ctx.thorough() { 4 } else { 3 });
    let mut idx = 0u64;
    for (a, _, _) in set.iter() {
        for which in 0..3 {
            idx += 1;
            if ctx.mine(idx) {
                check_cli(ctx, &refl::pp(a, refl::MINIMAL), which);
            }
        }
        if a.size() <= 3 {
            for c_true in [true, false] {
                for mode in 0..3 {
                    idx += 1;
                    if ctx.mine(idx) {
                        check_cli_combo(ctx, &refl::pp(a, refl::MINIMAL), c_true, mode);
                    }
                }
            }
        }
    }
    crate::cli::cleanup_scratch();
}

fn replay(ctx: &mut Ctx, c: &Value) {
    if c["part"].as_str() == Some("deep") {
        let mut c2 = Ctx::new("C20", ctx.tier, ctx.seed, 0, 1);
        deep_retain(&mut c2);
        for v in c2.violations {
            if v.replay == *c {
                ctx.violation(v.key, v.what, v.replay);
            }
        }
        return;
    }
    if c["part"].as_str() == Some("cli-combo") {
        check_cli_combo(ctx, c["text"].as_str().unwrap_or(""), c["c_true"].as_bool().unwrap_or(true), c["mode"].as_u64().unwrap_or(0) as usize);
        crate::cli::cleanup_scratch();
        return;
    }
    if c["part"].as_str() == Some("cli") {
        check_cli(ctx, c["text"].as_str().unwrap_or(""), c["filter"].as_u64().unwrap_or(0) as usize);
        crate::cli::cleanup_scratch();
    } else {
        let k = c["k"].as_u64().unwrap_or(4) as usize;
        if c["foreign"].as_bool().unwrap_or(false) {
            check_f(ctx, &Space::<usize>::by_foreign(&syms_for(k)), c["f"].as_u64().unwrap_or(0), true);
        } else if let Ok(sp) = Space::<usize>::by_interning(&syms_for(k)) {
            check_f(ctx, &sp, c["f"].as_u64().unwrap_or(0), false);
        }
    }
}
