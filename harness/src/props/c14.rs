//! C14 — Graphviz exports denote the same diagram / syntax tree they were made from.

use crate::cli::Inv;
use crate::conv::*;
use crate::dot::{self, DotGraph};
use crate::enumerate::{Alpha, Gen};
use crate::formulas::cli_formula_set;
use crate::refl::{self, Ast, ALL_BINS, ALL_CMPS};
use crate::robdd;
use crate::runner::{guarded, Ctx, Engine};
use crate::space::Space;
use rsbdd::bdd::BDD;
use rsbdd::bdd_io::BDDGraph;
use rsbdd::parser_io::SymbolicParseTree;
use rsbdd::{NamedSymbol, TruthTableEntry};
use serde_json::{json, Value};
use std::collections::BTreeMap;
use std::rc::Rc;

pub static ENGINE: Engine = Engine {
    prop: "C14",
    level: "exploration",
    rule: "diagram export: every Boolean function over 3 (4) named variables whose names need escaping (a', e-acute, x_1, b) as an interned diagram x filter Any/True/False through BDDGraph::render_dot, read back with an independent DOT reader: every node id declared once, every edge endpoint declared, one root, at most one T and one F edge per test node, declared nodes = distinct sub-diagrams minus the omitted leaf, only edges into the omitted leaf missing, and the read-back decision graph (a missing edge meaning the omitted leaf) has the truth table of f. Parse-tree export: every AST <= 3 (4) nodes over an alphabet with every node kind (incl. references, empty lists, repeated operands) through SymbolicParseTree::render_dot, read back as a term DAG from node and edge labels, unfolded, == the parsed tree. CLI: -d / -p files of every formula <= 3 (4) nodes equal the API rendering up to node addresses. distinct = distinct DOT texts",
    assumptions: &["the DOT reader (harness/src/dot.rs) understands the one-statement-per-line format of the dot crate and Rust's escape_default", "label conventions: test nodes are labelled with the variable name, leaves true/false, edges T/F; parse-tree labels as printed by the exporter (Debug names of operators)"],
    max_shards: 64,
    run,
    replay,
};

const TAG: &str = "C14";
type HN = Rc<BDD<NamedSymbol>>;

fn named(k: usize) -> Vec<NamedSymbol> {
    [("a'", 2usize), ("\u{e9}", 3), ("x_1", 7), ("b", 11)].iter().take(k).map(|(n, i)| sym(n, *i)).collect()
}

/// names only an API user can create: backslash, double quote, newline, trailing backslash
fn named_exotic() -> Vec<NamedSymbol> {
    [("p\\n", 1usize), ("\"q\"", 5), ("r\\", 6)].iter().map(|(n, i)| sym(n, *i)).collect()
}

fn filt(i: usize) -> TruthTableEntry {
    [TruthTableEntry::Any, TruthTableEntry::True, TruthTableEntry::False][i]
}

fn judge_bdd_dot(g: &DotGraph, f: &HN, names: &[String], want: u64, fi: usize) -> Vec<String> {
    let mut c = vec![];
    if g.name != "bdd_graph" {
        c.push(format!("graph is named {}", g.name));
    }
    let mut ids: BTreeMap<&str, &str> = BTreeMap::new();
    for (id, l) in &g.nodes {
        if ids.insert(id, l).is_some() {
            c.push(format!("node {id} is declared twice"));
        }
    }
    for (u, w, l) in &g.edges {
        if !ids.contains_key(u.as_str()) || !ids.contains_key(w.as_str()) {
            c.push(format!("edge {u} -> {w} references an undeclared node"));
        }
        if l != "T" && l != "F" {
            c.push(format!("edge label {l}"));
        }
    }
    if !c.is_empty() {
        return c;
    }
    let omitted: Option<bool> = match fi {
        1 => Some(false),
        2 => Some(true),
        _ => None,
    };
    // expected node count
    let subs = robdd::distinct_nodes(f);
    let expected_nodes = subs.iter().filter(|n| match (n.as_ref(), omitted) {
        (BDD::True, Some(true)) | (BDD::False, Some(false)) => false,
        _ => true,
    }).count();
    if g.nodes.len() != expected_nodes {
        c.push(format!("{} nodes declared, the diagram has {} distinct sub-diagrams to show", g.nodes.len(), expected_nodes));
    }
    // expected edge count: two per test node minus the edges into the omitted leaf
    let mut expected_edges = 0;
    for n in &subs {
        if let BDD::Choice(t, _, e) = n.as_ref() {
            for ch in [t, e] {
                let into_omitted = match (ch.as_ref(), omitted) {
                    (BDD::True, Some(true)) | (BDD::False, Some(false)) => true,
                    _ => false,
                };
                if !into_omitted {
                    expected_edges += 1;
                }
            }
        }
    }
    if g.edges.len() != expected_edges {
        c.push(format!("{} edges written, expected {} (only edges into the omitted leaf may be missing)", g.edges.len(), expected_edges));
    }
    // out edges
    let mut out: BTreeMap<&str, (Option<&str>, Option<&str>)> = BTreeMap::new();
    let mut indeg: BTreeMap<&str, usize> = ids.keys().map(|k| (*k, 0)).collect();
    for (u, w, l) in &g.edges {
        let e = out.entry(u).or_insert((None, None));
        let slot = if l == "T" { &mut e.0 } else { &mut e.1 };
        if slot.is_some() {
            c.push(format!("node {u} has two {l} edges"));
        }
        *slot = Some(w);
        *indeg.entry(w).or_insert(0) += 1;
    }
    let roots: Vec<&str> = indeg.iter().filter(|(_, d)| **d == 0).map(|(k, _)| *k).collect();
    if g.nodes.is_empty() {
        // everything was omitted: only legal for the constant equal to the omitted leaf
        let full = refl::full_mask(names.len());
        let ok = match omitted {
            Some(true) => want == full,
            Some(false) => want == 0,
            None => false,
        };
        if !ok {
            c.push("no node was written for a diagram that is not the omitted constant".to_string());
        }
        return c;
    }
    if roots.len() != 1 {
        c.push(format!("{} root nodes (nodes without incoming edge)", roots.len()));
        return c;
    }
    if !c.is_empty() {
        return c;
    }
    // read back
    for a in 0..(1usize << names.len()) {
        let mut cur = roots[0];
        let mut steps = 0;
        let val = loop {
            steps += 1;
            if steps > 64 {
                c.push("cycle in the exported graph".to_string());
                return c;
            }
            let label = ids[cur];
            if !out.contains_key(cur) && (label == "true" || label == "false") {
                break label == "true";
            }
            let Some(i) = names.iter().position(|n| n == label) else {
                c.push(format!("test node labelled '{label}' is not a variable of the diagram"));
                return c;
            };
            let (t, e) = out.get(cur).copied().unwrap_or((None, None));
            let next = if (a >> i) & 1 == 1 { t } else { e };
            match (next, omitted) {
                (Some(n), _) => cur = n,
                (None, Some(o)) => break o,
                (None, None) => {
                    c.push(format!("test node {cur} lacks an outgoing edge although nothing is filtered"));
                    return c;
                }
            }
        };
        if val != ((want >> a) & 1 == 1) {
            c.push(format!("read back, the graph evaluates to {val} under assignment {a:#b} of {:?}; the diagram gives {}", names, (want >> a) & 1 == 1));
            return c;
        }
    }
    c
}

fn check_bdd_export(ctx: &mut Ctx, sp: &Space<NamedSymbol>, tt: u64, fi: usize) {
    let exotic = sp.syms.first().map(|s| s.name.contains('\\')).unwrap_or(false);
    let case = json!({"part": if exotic { "bdd-exotic" } else { "bdd" }, "k": sp.k, "f": tt, "filter": fi});
    ctx.begin_case(|| case.clone());
    ctx.count("evaluations", 1);
    let f = sp.get(tt);
    let names = names_of(&sp.syms);
    let key = format!("{TAG} diagram export: f={tt:#x} over {:?}, filter {:?}", names, filt(fi));
    let mut buf: Vec<u8> = vec![];
    if let Err(p) = guarded(|| BDDGraph::new(&f, filt(fi)).render_dot(&mut buf)) {
        ctx.violation(key, format!("render_dot panicked: {p}"), case);
        return;
    }
    let text = String::from_utf8_lossy(&buf).into_owned();
    ctx.distinct(&normalise_ids(&text));
    match dot::parse(&text) {
        Err(e) => ctx.violation(key, format!("unreadable DOT: {e}"), case),
        Ok(g) => {
            let c = judge_bdd_dot(&g, &f, &names, tt, fi);
            if !c.is_empty() {
                ctx.violation(key, format!("{}\n{text}", c.join("; ")), case);
            }
        }
    }
    ctx.sample(|| json!({"f": robdd::show(&f), "filter": format!("{:?}", filt(fi)), "dot": text}));
}

/// replace node addresses by their order of first appearance
pub fn normalise_ids(text: &str) -> String {
    let mut map: Vec<String> = vec![];
    let mut out = String::new();
    let mut rest = text;
    while let Some(p) = rest.find("n_0x") {
        out.push_str(&rest[..p]);
        let tail = &rest[p..];
        let end = tail[4..].find(|ch: char| !ch.is_ascii_hexdigit()).map(|e| e + 4).unwrap_or(tail.len());
        let id = &tail[..end];
        let k = map.iter().position(|m| m == id).unwrap_or_else(|| {
            map.push(id.to_string());
            map.len() - 1
        });
        out.push_str(&format!("n_#{k}"));
        rest = &tail[end..];
    }
    out.push_str(rest);
    out
}

// ---------------------------------------------------------------------------------------
// parse trees

fn term_of(g: &DotGraph, id: &str, depth: usize) -> Result<Ast, String> {
    // a path longer than the number of declared nodes must repeat a node
    if depth > g.nodes.len() + 1 {
        return Err("cycle in the exported parse tree".into());
    }
    let label = &g.nodes.iter().find(|(i, _)| i == id).ok_or_else(|| format!("undeclared node {id}"))?.1;
    let kids: Vec<(&String, &String)> = g.edges.iter().filter(|(u, _, _)| u == id).map(|(_, w, l)| (l, w)).collect();
    let kid = |name: &str| -> Result<Ast, String> {
        let m: Vec<&&String> = kids.iter().filter(|(l, _)| l.as_str() == name).map(|(_, w)| w).collect();
        if m.len() != 1 {
            return Err(format!("node '{label}' has {} edges labelled '{name}'", m.len()));
        }
        term_of(g, m[0], depth + 1)
    };
    let list = |prefix: &str| -> Result<Vec<Ast>, String> {
        let mut items: Vec<(usize, &String)> = vec![];
        for (l, w) in &kids {
            if let Some(r) = l.strip_prefix(prefix).and_then(|r| r.strip_prefix('{')).and_then(|r| r.strip_suffix('}')) {
                // for the unprefixed form make sure it is not L{..}/R{..}
                if prefix.is_empty() && (l.starts_with('L') || l.starts_with('R')) {
                    continue;
                }
                items.push((r.parse::<usize>().map_err(|_| format!("bad list index in edge label {l}"))?, w));
            }
        }
        items.sort();
        for (j, (i, _)) in items.iter().enumerate() {
            if *i != j {
                return Err(format!("operand indices of '{label}' are not 0..n"));
            }
        }
        items.iter().map(|(_, w)| term_of(g, w, depth + 1)).collect()
    };
    let expect_edges = |n: usize| -> Result<(), String> {
        if kids.len() != n {
            Err(format!("node '{label}' has {} outgoing edges, expected {n}", kids.len()))
        } else {
            Ok(())
        }
    };
    if label == "True" {
        expect_edges(0)?;
        return Ok(Ast::True);
    }
    if label == "False" {
        expect_edges(0)?;
        return Ok(Ast::False);
    }
    if label == "Not" {
        expect_edges(1)?;
        return Ok(Ast::Not(Box::new(kid("")?)));
    }
    if label == "Ite" {
        expect_edges(3)?;
        return Ok(Ast::Ite(Box::new(kid("If")?), Box::new(kid("Then")?), Box::new(kid("Else")?)));
    }
    if let Some(v) = label.strip_prefix("Var ") {
        expect_edges(0)?;
        return Ok(Ast::Var(v.to_string()));
    }
    if let Some(v) = label.strip_prefix("Ref ") {
        expect_edges(0)?;
        return Ok(Ast::Ref(v.to_string()));
    }
    for (p, g_) in [("LFP ", false), ("GFP ", true)] {
        if let Some(v) = label.strip_prefix(p) {
            expect_edges(1)?;
            return Ok(Ast::Fp(v.to_string(), g_, Box::new(kid("")?)));
        }
    }
    for (p, ex) in [("Exists [", true), ("Forall [", false)] {
        if let Some(r) = label.strip_prefix(p).and_then(|r| r.strip_suffix(']')) {
            expect_edges(1)?;
            let vs: Vec<String> = if r.is_empty() { vec![] } else { r.split(", ").map(|s| s.to_string()).collect() };
            return Ok(Ast::Q(ex, vs, Box::new(kid("")?)));
        }
    }
    for b in ALL_BINS {
        if *label == format!("{:?}", b) {
            expect_edges(2)?;
            return Ok(Ast::Bin(b, Box::new(kid("L")?), Box::new(kid("R")?)));
        }
    }
    for cmp in ALL_CMPS {
        let name = format!("{:?}", cmp);
        if *label == name {
            let l = list("L")?;
            let r = list("R")?;
            expect_edges(l.len() + r.len())?;
            return Ok(Ast::CV(cmp, l, r));
        }
        if let Some(n) = label.strip_prefix(&format!("{name} ")) {
            let l = list("")?;
            expect_edges(l.len())?;
            return Ok(Ast::CC(cmp, l, refl::canon_num(n)));
        }
    }
    Err(format!("unknown node label '{label}'"))
}

fn read_back_tree(g: &DotGraph) -> Result<Ast, String> {
    if g.name != "parse_tree" {
        return Err(format!("graph is named {}", g.name));
    }
    let mut seen = vec![];
    for (id, _) in &g.nodes {
        if seen.contains(&id) {
            return Err(format!("node {id} declared twice"));
        }
        seen.push(id);
    }
    for (u, w, _) in &g.edges {
        if !seen.contains(&u) || !seen.contains(&w) {
            return Err(format!("edge {u} -> {w} references an undeclared node"));
        }
    }
    let roots: Vec<&String> = g.nodes.iter().map(|(i, _)| i).filter(|i| !g.edges.iter().any(|(_, w, _)| w == *i)).collect();
    if roots.len() != 1 {
        return Err(format!("{} root nodes", roots.len()));
    }
    term_of(g, roots[0], 0)
}

fn subterms(a: &Ast, out: &mut Vec<Ast>) {
    if !out.contains(a) {
        out.push(a.clone());
    }
    match a {
        Ast::Not(x) | Ast::Q(_, _, x) | Ast::Fp(_, _, x) => subterms(x, out),
        Ast::CC(_, l, _) => l.iter().for_each(|x| subterms(x, out)),
        Ast::CV(_, l, r) => l.iter().chain(r.iter()).for_each(|x| subterms(x, out)),
        Ast::Ite(c, t, e) => {
            subterms(c, out);
            subterms(t, out);
            subterms(e, out)
        }
        Ast::Bin(_, l, r) => {
            subterms(l, out);
            subterms(r, out)
        }
        _ => {}
    }
}

fn check_tree_export(ctx: &mut Ctx, text: &str) {
    let case = json!({"part": "tree", "text": text});
    ctx.begin_case(|| case.clone());
    ctx.count("evaluations", 1);
    let key = format!("{TAG} parse-tree export: {text}");
    let p = match impl_parse(text) {
        ImplParse::Ok(p) => p,
        _ => return, // parsing is C08's business
    };
    let Some(parsed) = conv(&p.bdd) else { return };
    let mut buf: Vec<u8> = vec![];
    if let Err(m) = guarded(|| SymbolicParseTree::new(&p.bdd).render_dot(&mut buf)) {
        ctx.violation(key, format!("render_dot panicked: {m}"), case);
        return;
    }
    let dot_text = String::from_utf8_lossy(&buf).into_owned();
    ctx.distinct(&dot_text);
    match dot::parse(&dot_text).and_then(|g| read_back_tree(&g).map(|t| (g, t))) {
        Err(e) => ctx.violation(key, format!("{e}\n{dot_text}"), case),
        Ok((g, t)) => {
            if t != parsed {
                ctx.violation(key, format!("read back as {:?}, parsed tree is {:?}\n{dot_text}", t, parsed), case);
            } else {
                // shared identical sub-terms: one node per distinct sub-term
                let mut subs = vec![];
                subterms(&parsed, &mut subs);
                if g.nodes.len() != subs.len() {
                    ctx.violation(key, format!("{} nodes declared for {} distinct sub-terms\n{dot_text}", g.nodes.len(), subs.len()), case);
                }
            }
        }
    }
    ctx.sample(|| json!({"text": text, "dot": dot_text}));
}

fn tree_alpha() -> Alpha {
    let s = |x: &str| x.to_string();
    Alpha {
        leaves: vec![Ast::var("a'"), Ast::var("\u{e9}"), Ast::True, Ast::False, Ast::Ref(s("r"))],
        not: true,
        bins: ALL_BINS.to_vec(),
        ite: true,
        quants: vec![(true, vec![s("a'")]), (false, vec![s("a'"), s("\u{e9}")]), (true, vec![]), (true, vec![s("a'"), s("a'")]), (false, vec![s("\u{e9}"), s("a'"), s("a'"), s("\u{e9}")])],
        fps: vec![(s("X"), false), (s("a'"), true)],
        cmps: ALL_CMPS.to_vec(),
        nums: vec![s("0"), s("2")],
        cv: true,
        max_list: 3,
    }
}

fn check_cli_files(ctx: &mut Ctx, text: &str) {
    // variants: (extra options, filter of the export, is the diagram the model)
    let variants: [(&[&str], usize, bool); 5] = [(&[], 0, false), (&["-f", "t"], 1, false), (&["-f", "False"], 2, false), (&["-m"], 0, true), (&["-m", "-f", "f"], 2, true)];
    for (vi, (opts, fi, model)) in variants.iter().enumerate() {
        let case = json!({"part": "cli", "text": text, "variant": vi});
        ctx.begin_case(|| case.clone());
        ctx.count("evaluations", 1);
        ctx.count("cli_runs", 1);
        let key = format!("{TAG} rsbdd -d -p {}: {text}", opts.join(" "));
        let mut inv = Inv::new(text, opts);
        inv.dot = true;
        inv.parsetree = true;
        let r = inv.run();
        if !r.run.ok() {
            ctx.violation(key, format!("rsbdd failed: {} {}", r.run.describe(), r.run.err_tail()), case);
            continue;
        }
        let ImplParse::Ok(p) = impl_parse(text) else { return };
        let Ok(mut res) = impl_eval(&p) else { return };
        if *model {
            let env = p.env.clone();
            match guarded(|| env.model(res.clone())) {
                Ok(m) => res = m,
                Err(_) => continue,
            }
        }
        let mut b1 = vec![];
        let mut b2 = vec![];
        let _ = BDDGraph::new(&res, filt(*fi)).render_dot(&mut b1);
        let _ = SymbolicParseTree::new(&p.bdd).render_dot(&mut b2);
        let d = r.dot.unwrap_or_default();
        let pt = r.parsetree.unwrap_or_default();
        ctx.distinct(&(vi, normalise_ids(&String::from_utf8_lossy(&d))));
        // the API rendering itself is judged by the read-back oracle above; here the files the
        // binary writes must be that rendering (for the diagram: the model with -m, under -f)
        let api = String::from_utf8_lossy(&b1).into_owned();
        let names = p.vars.iter().map(|v| v.name.as_ref().clone()).collect::<Vec<_>>();
        let want_tt = tt_named(&res, &names).ok();
        let mut complaints = vec![];
        if let (Ok(g), Some(w), true) = (dot::parse(&String::from_utf8_lossy(&d)), want_tt, names.len() <= 6) {
            complaints = judge_bdd_dot(&g, &res, &names, w, *fi);
        }
        if !complaints.is_empty() {
            ctx.violation(key, format!("the -d file does not denote the diagram under the requested filter: {}\n{}", complaints.join("; "), String::from_utf8_lossy(&d)), case);
        } else if normalise_ids(&String::from_utf8_lossy(&d)) != normalise_ids(&api) {
            ctx.violation(key, format!("the -d file differs from the API rendering of the same diagram and filter:\n{}\nvs\n{}", String::from_utf8_lossy(&d), api), case);
        } else if pt != b2 {
            ctx.violation(key, format!("the -p file differs from the API rendering of the same tree:\n{}\nvs\n{}", String::from_utf8_lossy(&pt), String::from_utf8_lossy(&b2)), case);
        }
    }
}

fn run(ctx: &mut Ctx) {
    let th = ctx.thorough();
    for k in if th { vec![3usize, 4] } else { vec![3usize, 4] } {
        match Space::<NamedSymbol>::by_interning(&named(k)) {
            Err(e) => ctx.violation(format!("{TAG} building diagrams"), e, json!({"part": "bdd", "k": k, "f": 0, "filter": 0})),
            Ok(sp) => {
                let mut idx = 0;
                for tt in 0..sp.nfun() as u64 {
                    for fi in 0..3 {
                        idx += 1;
                        if ctx.mine(idx) {
                            check_bdd_export(ctx, &sp, tt, fi);
                        }
                    }
                }
            }
        }
    }
    match Space::<NamedSymbol>::by_interning(&named_exotic()) {
        Err(e) => ctx.violation(format!("{TAG} building diagrams"), e, json!({"part": "bdd-exotic", "f": 0, "filter": 0})),
        Ok(sp) => {
            let mut idx = 0;
            for tt in 0..sp.nfun() as u64 {
                for fi in 0..3 {
                    idx += 1;
                    if ctx.mine(idx) {
                        check_bdd_export(ctx, &sp, tt, fi);
                    }
                }
            }
        }
    }
    let mut g = Gen::new(tree_alpha());
    let mut idx = 0u64;
    for size in 1..=(if th { 4 } else { 3 }) {
        let mut todo = vec![];
        g.stream(size, &mut |a| {
            idx += 1;
            if ctx.mine(idx) {
                todo.push(a);
            }
        });
        for a in todo {
            check_tree_export(ctx, &refl::pp(&a, refl::MINIMAL));
            ctx.count("trees", 1);
        }
    }
    // larger trees: long binder lists, long operand lists, deep nesting
    {
        let name = |i: usize| format!("n{i}");
        let mut big: Vec<Ast> = vec![];
        for n in [9usize, 10, 17, 33, 70] {
            let vs: Vec<String> = (0..n).map(name).collect();
            big.push(Ast::Q(n % 2 == 0, vs.clone(), Box::new(Ast::bin(refl::Bin::And, Ast::var(&vs[0]), Ast::var("b")))));
            let ops: Vec<Ast> = (0..n.min(20)).map(|i| Ast::var(&name(i % 7))).collect();
            big.push(Ast::CC(refl::Cmp::AtLeast, ops.clone(), "3".into()));
            big.push(Ast::CV(refl::Cmp::LessThan, ops[..n.min(20) / 2].to_vec(), ops[n.min(20) / 2..].to_vec()));
            let mut chain = Ast::var("z");
            for i in 0..n {
                chain = if i % 3 == 0 { Ast::not(chain) } else { Ast::bin(ALL_BINS[i % 8], Ast::var(&name(i % 5)), chain) };
            }
            big.push(chain);
        }
        for a in big {
            idx += 1;
            if ctx.mine(idx) {
                check_tree_export(ctx, &refl::pp(&a, refl::MINIMAL));
                ctx.count("trees_large", 1);
            }
        }
    }
    let set = cli_formula_set(if th { 4 } else { 3 });
    for (i, (a, _, _)) in set.iter().enumerate() {
        if ctx.mine(i as u64) {
            check_cli_files(ctx, &refl::pp(a, refl::MINIMAL));
        }
    }
    crate::cli::cleanup_scratch();
}

fn replay(ctx: &mut Ctx, c: &Value) {
    match c["part"].as_str() {
        Some("tree") => check_tree_export(ctx, c["text"].as_str().unwrap_or("")),
        Some("bdd-exotic") => {
            if let Ok(sp) = Space::<NamedSymbol>::by_interning(&named_exotic()) {
                check_bdd_export(ctx, &sp, c["f"].as_u64().unwrap_or(0), c["filter"].as_u64().unwrap_or(0) as usize);
            }
        }
        Some("cli") => {
            check_cli_files(ctx, c["text"].as_str().unwrap_or(""));
            crate::cli::cleanup_scratch();
        }
        _ => {
            let k = c["k"].as_u64().unwrap_or(3) as usize;
            if let Ok(sp) = Space::<NamedSymbol>::by_interning(&named(k)) {
                check_bdd_export(ctx, &sp, c["f"].as_u64().unwrap_or(0), c["filter"].as_u64().unwrap_or(0) as usize);
            }
        }
    }
}
