//! C14 — Graphviz exports denote the same diagram / syntax tree they were made from.

use crate::cli::Inv;
use crate::conv::*;
use crate::dot::{self, DotGraph};
use crate::enumerate::{Alpha, Gen};
use crate::formulas::cli_formula_set;
use crate::refl::{self, Ast, ALL_BINS, ALL_CMPS};
use crate::robdd;
use crate::runner::{guarded, Ctx, Engine};
use crate::space::Space;
use rsbdd::bdd::BDD;
use rsbdd::bdd_io::BDDGraph;
use rsbdd::parser_io::SymbolicParseTree;
use rsbdd::{NamedSymbol, TruthTableEntry};
use serde_json::{json, Value};
use std::collections::BTreeMap;
use std::rc::Rc;

pub static ENGINE: Engine = Engine {
    prop: "C14",
    level: "exploration",
    rule: "diagram export: every Boolean function over 3 (4) named variables whose names need escaping (a', e-acute, x_1, b) as an interned diagram x filter Any/True/False through BDDGraph::render_dot, read back with an independent DOT reader: every node id declared once, every edge endpoint declared, one root, at most one T and one F edge per test node, declared nodes = distinct sub-diagrams minus the omitted leaf, only edges into the omitted leaf missing, and the read-back decision graph (a missing edge meaning the omitted leaf) has the truth table of f. Larger diagrams (5..20 variables, up to several hundred nodes: parities, and/or chains, thresholds, comparators of two blocks, multiplexers in both variable orders, scrambled functions) built node by node with mk_choice x 3 filters, read back structurally: the exported graph must be isomorphic to the diagram, every node declared once. Diagrams over a user-defined symbol type whose Hash is coarser than its Eq (4 608 functions of four such variables, all 65 536 in thorough) x 3 filters, same structural read-back. Parse-tree export: every AST <= 3 (4) nodes over an alphabet with every node kind (incl. references, empty lists, repeated operands) through SymbolicParseTree::render_dot, read back as a term DAG from node and edge labels, unfolded, == the parsed tree. CLI: -d / -p files of every formula <= 3 (4) nodes equal the API rendering up to node addresses. distinct = distinct DOT texts",
    assumptions: &["the DOT reader (harness/src/dot.rs) understands the one-statement-per-line format of the dot crate and Rust's escape_default", "label conventions: test nodes are labelled with the variable name, leaves true/false, edges T/F; parse-tree labels as printed by the exporter (Debug names of operators)"],
    max_shards: 64,
    run,
    replay,
};

const TAG: &str = "C14";
type HN = Rc<BDD<NamedSymbol>>;

fn named(k: usize) -> Vec<NamedSymbol> {
    [("a'", 2usize), ("\u{e9}", 3), ("x_1", 7), ("b", 11)].iter().take(k).map(|(n, i)| sym(n, *i)).collect()
}

/// names only an API user can create: backslash, double quote, newline, trailing backslash
fn named_exotic() -> Vec<NamedSymbol> {
    [("p\\n", 1usize), ("\"q\"", 5), ("r\\", 6)].iter().map(|(n, i)| sym(n, *i)).collect()
}

fn filt(i: usize) -> TruthTableEntry {
    [TruthTableEntry::Any, TruthTableEntry::True, TruthTableEntry::False][i]
}

fn judge_bdd_dot(g: &DotGraph, f: &HN, names: &[String], want: u64, fi: usize) -> Vec<String> {
    let mut c = vec![];
    if g.name != "bdd_graph" {
        c.push(format!("graph is named {}", g.name));
    }
    let mut ids: BTreeMap<&str, &str> = BTreeMap::new();
    for (id, l) in &g.nodes {
        if ids.insert(id, l).is_some() {
            c.push(format!("node {id} is declared twice"));
        }
    }
    for (u, w, l) in &g.edges {
        if !ids.contains_key(u.as_str()) || !ids.contains_key(w.as_str()) {
            c.push(format!("edge {u} -> {w} references an undeclared node"));
        }
        if l != "T" && l != "F" {
            c.push(format!("edge label {l}"));
        }
    }
    if !c.is_empty() {
        return c;
    }
    let omitted: Option<bool> = match fi {
        1 => Some(false),
        2 => Some(true),
        _ => None,
    };
    // expected node count
    let subs = robdd::distinct_nodes(f);
    let expected_nodes = subs.iter().filter(|n| match (n.as_ref(), omitted) {
        (BDD::True, Some(true)) | (BDD::False, Some(false)) => false,
        _ => true,
    }).count();
    if g.nodes.len() != expected_nodes {
        c.push(format!("{} nodes declared, the diagram has {} distinct sub-diagrams to show", g.nodes.len(), expected_nodes));
    }
    // expected edge count: two per test node minus the edges into the omitted leaf
    let mut expected_edges = 0;
    for n in &subs {
        if let BDD::Choice(t, _, e) = n.as_ref() {
            for ch in [t, e] {
                let into_omitted = match (ch.as_ref(), omitted) {
                    (BDD::True, Some(true)) | (BDD::False, Some(false)) => true,
                    _ => false,
                };
                if !into_omitted {
                    expected_edges += 1;
                }
            }
        }
    }
    if g.edges.len() != expected_edges {
        c.push(format!("{} edges written, expected {} (only edges into the omitted leaf may be missing)", g.edges.len(), expected_edges));
    }
    // out edges
    let mut out: BTreeMap<&str, (Option<&str>, Option<&str>)> = BTreeMap::new();
    let mut indeg: BTreeMap<&str, usize> = ids.keys().map(|k| (*k, 0)).collect();
    for (u, w, l) in &g.edges {
        let e = out.entry(u).or_insert((None, None));
        let slot = if l == "T" { &mut e.0 } else { &mut e.1 };
        if slot.is_some() {
            c.push(format!("node {u} has two {l} edges"));
        }
        *slot = Some(w);
        *indeg.entry(w).or_insert(0) += 1;
    }
    let roots: Vec<&str> = indeg.iter().filter(|(_, d)| **d == 0).map(|(k, _)| *k).collect();
    if g.nodes.is_empty() {
        // everything was omitted: only legal for the constant equal to the omitted leaf
        let full = refl::full_mask(names.len());
        let ok = match omitted {
            Some(true) => want == full,
            Some(false) => want == 0,
            None => false,
        };
        if !ok {
            c.push("no node was written for a diagram that is not the omitted constant".to_string());
        }
        return c;
    }
    if roots.len() != 1 {
        c.push(format!("{} root nodes (nodes without incoming edge)", roots.len()));
        return c;
    }
    if !c.is_empty() {
        return c;
    }
    // read back
    for a in 0..(1usize << names.len()) {
        let mut cur = roots[0];
        let mut steps = 0;
        let val = loop {
            steps += 1;
            if steps > 64 {
                c.push("cycle in the exported graph".to_string());
                return c;
            }
            let label = ids[cur];
            if !out.contains_key(cur) && (label == "true" || label == "false") {
                break label == "true";
            }
            let Some(i) = names.iter().position(|n| n == label) else {
                c.push(format!("test node labelled '{label}' is not a variable of the diagram"));
                return c;
            };
            let (t, e) = out.get(cur).copied().unwrap_or((None, None));
            let next = if (a >> i) & 1 == 1 { t } else { e };
            match (next, omitted) {
                (Some(n), _) => cur = n,
                (None, Some(o)) => break o,
                (None, None) => {
                    c.push(format!("test node {cur} lacks an outgoing edge although nothing is filtered"));
                    return c;
                }
            }
        };
        if val != ((want >> a) & 1 == 1) {
            c.push(format!("read back, the graph evaluates to {val} under assignment {a:#b} of {:?}; the diagram gives {}", names, (want >> a) & 1 == 1));
            return c;
        }
    }
    c
}

fn check_bdd_export(ctx: &mut Ctx, sp: &Space<NamedSymbol>, tt: u64, fi: usize) {
    let exotic = sp.syms.first().map(|s| s.name.contains('\\')).unwrap_or(false);
    let case = json!({"part": if exotic { "bdd-exotic" } else { "bdd" }, "k": sp.k, "f": tt, "filter": fi});
    ctx.begin_case(|| case.clone());
    ctx.count("evaluations", 1);
    // every other function is exported from a copy that shares nothing with the environment
    // (every leaf occurrence a separate allocation, as after a conversion between symbol types)
    // ... but only where no two internal nodes of the copy are structurally equal: the exporter
    // identifies nodes by address and de-duplicates them by structure, which is inconsistent for
    // such copies (finding F9, recorded in known_findings.json with one witness)
    let g0 = sp.get(tt);
    fn tree_size(b: &BDD<NamedSymbol>) -> usize {
        match b {
            BDD::Choice(t, _, e) => 1 + tree_size(t) + tree_size(e),
            _ => 0,
        }
    }
    let internal_distinct = robdd::distinct_nodes(&g0).iter().filter(|n| matches!(n.as_ref(), BDD::Choice(..))).count();
    let copy = (tt + fi as u64) % 2 == 1 && tree_size(&g0) == internal_distinct;
    let f = if copy { robdd::deep_copy(&g0) } else { g0 };
    let names = names_of(&sp.syms);
    let key = format!("{TAG} diagram export: f={tt:#x} over {:?}, filter {:?}{}", names, filt(fi), if copy { " (non-interned copy)" } else { "" });
    let mut buf: Vec<u8> = vec![];
    if let Err(p) = guarded(|| BDDGraph::new(&f, filt(fi)).render_dot(&mut buf)) {
        ctx.violation(key, format!("render_dot panicked: {p}"), case);
        return;
    }
    let text = String::from_utf8_lossy(&buf).into_owned();
    ctx.distinct(&normalise_ids(&text));
    match dot::parse(&text) {
        Err(e) => ctx.violation(key, format!("unreadable DOT: {e}"), case),
        Ok(g) => {
            let c = judge_bdd_dot(&g, &f, &names, tt, fi);
            if !c.is_empty() {
                ctx.violation(key, format!("{}\n{text}", c.join("; ")), case);
            }
        }
    }
    ctx.sample(|| json!({"f": robdd::show(&f), "filter": format!("{:?}", filt(fi)), "dot": text}));
}

/// replace node addresses by their order of first appearance
pub fn normalise_ids(text: &str) -> String {
    let mut map: Vec<String> = vec![];
    let mut out = String::new();
    let mut rest = text;
    while let Some(p) = rest.find("n_0x") {
        out.push_str(&rest[..p]);
        let tail = &rest[p..];
        let end = tail[4..].find(|ch: char| !ch.is_ascii_hexdigit()).map(|e| e + 4).unwrap_or(tail.len());
        let id = &tail[..end];
        let k = map.iter().position(|m| m == id).unwrap_or_else(|| {
            map.push(id.to_string());
            map.len() - 1
        });
        out.push_str(&format!("n_#{k}"));
        rest = &tail[end..];
    }
    out.push_str(rest);
    out
}

// ---------------------------------------------------------------------------------------
// parse trees

fn term_of(g: &DotGraph, id: &str, depth: usize) -> Result<Ast, String> {
    // a path longer than the number of declared nodes must repeat a node
    if depth > g.nodes.len() + 1 {
        return Err("cycle in the exported parse tree".into());
    }
    let label = &g.nodes.iter().find(|(i, _)| i == id).ok_or_else(|| format!("undeclared node {id}"))?.1;
    let kids: Vec<(&String, &String)> = g.edges.iter().filter(|(u, _, _)| u == id).map(|(_, w, l)| (l, w)).collect();
    let kid = |name: &str| -> Result<Ast, String> {
        let m: Vec<&&String> = kids.iter().filter(|(l, _)| l.as_str() == name).map(|(_, w)| w).collect();
        if m.len() != 1 {
            return Err(format!("node '{label}' has {} edges labelled '{name}'", m.len()));
        }
        term_of(g, m[0], depth + 1)
    };
    let list = |prefix: &str| -> Result<Vec<Ast>, String> {
        let mut items: Vec<(usize, &String)> = vec![];
        for (l, w) in &kids {
            if let Some(r) = l.strip_prefix(prefix).and_then(|r| r.strip_prefix('{')).and_then(|r| r.strip_suffix('}')) {
                // for the unprefixed form make sure it is not L{..}/R{..}
                if prefix.is_empty() && (l.starts_with('L') || l.starts_with('R')) {
                    continue;
                }
                items.push((r.parse::<usize>().map_err(|_| format!("bad list index in edge label {l}"))?, w));
            }
        }
        items.sort();
        for (j, (i, _)) in items.iter().enumerate() {
            if *i != j {
                return Err(format!("operand indices of '{label}' are not 0..n"));
            }
        }
        items.iter().map(|(_, w)| term_of(g, w, depth + 1)).collect()
    };
    let expect_edges = |n: usize| -> Result<(), String> {
        if kids.len() != n {
            Err(format!("node '{label}' has {} outgoing edges, expected {n}", kids.len()))
        } else {
            Ok(())
        }
    };
    if label == "True" {
        expect_edges(0)?;
        return Ok(Ast::True);
    }
    if label == "False" {
        expect_edges(0)?;
        return Ok(Ast::False);
    }
    if label == "Not" {
        expect_edges(1)?;
        return Ok(Ast::Not(Box::new(kid("")?)));
    }
    if label == "Ite" {
        expect_edges(3)?;
        return Ok(Ast::Ite(Box::new(kid("If")?), Box::new(kid("Then")?), Box::new(kid("Else")?)));
    }
    if let Some(v) = label.strip_prefix("Var ") {
        expect_edges(0)?;
        return Ok(Ast::Var(v.to_string()));
    }
    if let Some(v) = label.strip_prefix("Ref ") {
        expect_edges(0)?;
        return Ok(Ast::Ref(v.to_string()));
    }
    for (p, g_) in [("LFP ", false), ("GFP ", true)] {
        if let Some(v) = label.strip_prefix(p) {
            expect_edges(1)?;
            return Ok(Ast::Fp(v.to_string(), g_, Box::new(kid("")?)));
        }
    }
    for (p, ex) in [("Exists [", true), ("Forall [", false)] {
        if let Some(r) = label.strip_prefix(p).and_then(|r| r.strip_suffix(']')) {
            expect_edges(1)?;
            let vs: Vec<String> = if r.is_empty() { vec![] } else { r.split(", ").map(|s| s.to_string()).collect() };
            return Ok(Ast::Q(ex, vs, Box::new(kid("")?)));
        }
    }
    for b in ALL_BINS {
        if *label == format!("{:?}", b) {
            expect_edges(2)?;
            return Ok(Ast::Bin(b, Box::new(kid("L")?), Box::new(kid("R")?)));
        }
    }
    for cmp in ALL_CMPS {
        let name = format!("{:?}", cmp);
        if *label == name {
            let l = list("L")?;
            let r = list("R")?;
            expect_edges(l.len() + r.len())?;
            return Ok(Ast::CV(cmp, l, r));
        }
        if let Some(n) = label.strip_prefix(&format!("{name} ")) {
            let l = list("")?;
            expect_edges(l.len())?;
            return Ok(Ast::CC(cmp, l, refl::canon_num(n)));
        }
    }
    Err(format!("unknown node label '{label}'"))
}

fn read_back_tree(g: &DotGraph) -> Result<Ast, String> {
    if g.name != "parse_tree" {
        return Err(format!("graph is named {}", g.name));
    }
    let mut seen = vec![];
    for (id, _) in &g.nodes {
        if seen.contains(&id) {
            return Err(format!("node {id} declared twice"));
        }
        seen.push(id);
    }
    for (u, w, _) in &g.edges {
        if !seen.contains(&u) || !seen.contains(&w) {
            return Err(format!("edge {u} -> {w} references an undeclared node"));
        }
    }
    let roots: Vec<&String> = g.nodes.iter().map(|(i, _)| i).filter(|i| !g.edges.iter().any(|(_, w, _)| w == *i)).collect();
    if roots.len() != 1 {
        return Err(format!("{} root nodes", roots.len()));
    }
    term_of(g, roots[0], 0)
}

fn subterms(a: &Ast, out: &mut Vec<Ast>) {
    if !out.contains(a) {
        out.push(a.clone());
    }
    match a {
        Ast::Not(x) | Ast::Q(_, _, x) | Ast::Fp(_, _, x) => subterms(x, out),
        Ast::CC(_, l, _) => l.iter().for_each(|x| subterms(x, out)),
        Ast::CV(_, l, r) => l.iter().chain(r.iter()).for_each(|x| subterms(x, out)),
        Ast::Ite(c, t, e) => {
            subterms(c, out);
            subterms(t, out);
            subterms(e, out)
        }
        Ast::Bin(_, l, r) => {
            subterms(l, out);
            subterms(r, out)
        }
        _ => {}
    }
}

fn check_tree_export(ctx: &mut Ctx, text: &str) {
    let case = json!({"part": "tree", "text": text});
    ctx.begin_case(|| case.clone());
    ctx.count("evaluations", 1);
    let key = format!("{TAG} parse-tree export: {text}");
    let p = match impl_parse(text) {
        ImplParse::Ok(p) => p,
        _ => return, // parsing is C08's business
    };
    let Some(parsed) = conv(&p.bdd) else { return };
    let mut buf: Vec<u8> = vec![];
    if let Err(m) = guarded(|| SymbolicParseTree::new(&p.bdd).render_dot(&mut buf)) {
        ctx.violation(key, format!("render_dot panicked: {m}"), case);
        return;
    }
    let dot_text = String::from_utf8_lossy(&buf).into_owned();
    ctx.distinct(&dot_text);
    match dot::parse(&dot_text).and_then(|g| read_back_tree(&g).map(|t| (g, t))) {
        Err(e) => ctx.violation(key, format!("{e}\n{dot_text}"), case),
        Ok((g, t)) => {
            if t != parsed {
                ctx.violation(key, format!("read back as {:?}, parsed tree is {:?}\n{dot_text}", t, parsed), case);
            } else {
                // shared identical sub-terms: one node per distinct sub-term
                let mut subs = vec![];
                subterms(&parsed, &mut subs);
                if g.nodes.len() != subs.len() {
                    ctx.violation(key, format!("{} nodes declared for {} distinct sub-terms\n{dot_text}", g.nodes.len(), subs.len()), case);
                }
            }
        }
    }
    ctx.sample(|| json!({"text": text, "dot": dot_text}));
}

fn tree_alpha() -> Alpha {
    let s = |x: &str| x.to_string();
    Alpha {
        leaves: vec![Ast::var("a'"), Ast::var("\u{e9}"), Ast::True, Ast::False, Ast::Ref(s("r"))],
        not: true,
        bins: ALL_BINS.to_vec(),
        ite: true,
        quants: vec![(true, vec![s("a'")]), (false, vec![s("a'"), s("\u{e9}")]), (true, vec![]), (true, vec![s("a'"), s("a'")]), (false, vec![s("\u{e9}"), s("a'"), s("a'"), s("\u{e9}")])],
        fps: vec![(s("X"), false), (s("a'"), true)],
        cmps: ALL_CMPS.to_vec(),
        nums: vec![s("0"), s("2")],
        cv: true,
        max_list: 3,
    }
}

fn check_cli_files(ctx: &mut Ctx, text: &str) {
    // variants: (extra options, filter of the export, is the diagram the model)
    let variants: [(&[&str], usize, bool); 5] = [(&[], 0, false), (&["-f", "t"], 1, false), (&["-f", "False"], 2, false), (&["-m"], 0, true), (&["-m", "-f", "f"], 2, true)];
    for (vi, (opts, fi, model)) in variants.iter().enumerate() {
        let case = json!({"part": "cli", "text": text, "variant": vi});
        ctx.begin_case(|| case.clone());
        ctx.count("evaluations", 1);
        ctx.count("cli_runs", 1);
        let key = format!("{TAG} rsbdd -d -p {}: {text}", opts.join(" "));
        let mut inv = Inv::new(text, opts);
        inv.dot = true;
        inv.parsetree = true;
        let r = inv.run();
        if !r.run.ok() {
            ctx.violation(key, format!("rsbdd failed: {} {}", r.run.describe(), r.run.err_tail()), case);
            continue;
        }
        let ImplParse::Ok(p) = impl_parse(text) else { return };
        let Ok(mut res) = impl_eval(&p) else { return };
        if *model {
            let env = p.env.clone();
            match guarded(|| env.model(res.clone())) {
                Ok(m) => res = m,
                Err(_) => continue,
            }
        }
        let mut b1 = vec![];
        let mut b2 = vec![];
        let _ = BDDGraph::new(&res, filt(*fi)).render_dot(&mut b1);
        let _ = SymbolicParseTree::new(&p.bdd).render_dot(&mut b2);
        let d = r.dot.unwrap_or_default();
        let pt = r.parsetree.unwrap_or_default();
        ctx.distinct(&(vi, normalise_ids(&String::from_utf8_lossy(&d))));
        // the API rendering itself is judged by the read-back oracle above; here the files the
        // binary writes must be that rendering (for the diagram: the model with -m, under -f)
        let api = String::from_utf8_lossy(&b1).into_owned();
        let names = p.vars.iter().map(|v| v.name.as_ref().clone()).collect::<Vec<_>>();
        let want_tt = tt_named(&res, &names).ok();
        let mut complaints = vec![];
        if let (Ok(g), Some(w), true) = (dot::parse(&String::from_utf8_lossy(&d)), want_tt, names.len() <= 6) {
            complaints = judge_bdd_dot(&g, &res, &names, w, *fi);
        }
        if !complaints.is_empty() {
            ctx.violation(key, format!("the -d file does not denote the diagram under the requested filter: {}\n{}", complaints.join("; "), String::from_utf8_lossy(&d)), case);
        } else if normalise_ids(&String::from_utf8_lossy(&d)) != normalise_ids(&api) {
            ctx.violation(key, format!("the -d file differs from the API rendering of the same diagram and filter:\n{}\nvs\n{}", String::from_utf8_lossy(&d), api), case);
        } else if pt != b2 {
            ctx.violation(key, format!("the -p file differs from the API rendering of the same tree:\n{}\nvs\n{}", String::from_utf8_lossy(&pt), String::from_utf8_lossy(&b2)), case);
        }
        // -p and -d naming the SAME file: whichever export is written last, the file must be
        // exactly one of the two renderings (a readable graph), not a mixture
        if vi == 0 {
            let case = json!({"part": "cli", "text": text, "variant": vi, "same_file": true});
            ctx.begin_case(|| case.clone());
            ctx.count("evaluations", 1);
            ctx.count("cli_runs", 1);
            let f = crate::cli::scratch_file("both.dot", b"stale contents of an earlier run that are longer than any export of a small formula ........................................................................................................................................................................................................................................\n");
            let args: Vec<String> = vec![format!("--evaluate={text}"), "-p".into(), f.display().to_string(), "-d".into(), f.display().to_string()];
            let r2 = crate::cli::run_bin("rsbdd", &args, None, &[]);
            let got = std::fs::read(&f).unwrap_or_default();
            let key = format!("{TAG} rsbdd -p F -d F (same file): {text}");
            if !r2.ok() {
                ctx.violation(key, format!("rsbdd failed: {} {}", r2.describe(), r2.err_tail()), case);
            } else if normalise_ids(&String::from_utf8_lossy(&got)) != normalise_ids(&api) && got != b2 {
                ctx.violation(key, format!("the file is neither the diagram nor the parse tree:\n{}", String::from_utf8_lossy(&got)), case);
            }
        }
    }
}

// ---------------------------------------------------------------------------------------
// larger diagrams (more than four variables, up to a few hundred nodes), built node by node
// through the engine's public constructor from a reference construction (no connective is
// involved) and read back STRUCTURALLY: the exported graph must be isomorphic to the diagram.

/// name of family member i; None past the end
fn big_member(i: usize) -> Option<(String, usize, Box<dyn Fn(&[bool]) -> bool>)> {
    let mut v: Vec<(String, usize, Box<dyn Fn(&[bool]) -> bool>)> = vec![];
    for n in [5usize, 6, 7, 8, 12, 16, 17, 20] {
        v.push((format!("parity{n}"), n, Box::new(|a: &[bool]| a.iter().filter(|x| **x).count() % 2 == 1)));
    }
    for n in [7usize, 13, 20] {
        v.push((format!("and{n}"), n, Box::new(|a: &[bool]| a.iter().all(|x| *x))));
        v.push((format!("or{n}"), n, Box::new(|a: &[bool]| a.iter().any(|x| *x))));
    }
    for (n, k) in [(8usize, 4usize), (12, 6), (16, 3), (16, 8), (20, 10)] {
        v.push((format!("atleast{k}of{n}"), n, Box::new(move |a: &[bool]| a.iter().filter(|x| **x).count() >= k)));
        v.push((format!("exactly{k}of{n}"), n, Box::new(move |a: &[bool]| a.iter().filter(|x| **x).count() == k)));
    }
    // interleaving-sensitive comparators: x0..x(h-1) equals x(h)..x(2h-1), blocks apart
    for h in [3usize, 4, 5, 6] {
        v.push((format!("equal-halves{h}"), 2 * h, Box::new(move |a: &[bool]| (0..h).all(|i| a[i] == a[h + i]))));
        v.push((format!("less-than-halves{h}"), 2 * h, Box::new(move |a: &[bool]| {
            let (x, y) = ((0..h).fold(0usize, |s, i| s * 2 + a[i] as usize), (0..h).fold(0usize, |s, i| s * 2 + a[h + i] as usize));
            x < y
        })));
    }
    // multiplexers: s select bits choose among 2^s data bits
    for sbits in [2usize, 3] {
        v.push((format!("mux{sbits}"), sbits + (1 << sbits), Box::new(move |a: &[bool]| {
            let sel = (0..sbits).fold(0usize, |s, i| s * 2 + a[i] as usize);
            a[sbits + sel]
        })));
        v.push((format!("mux{sbits}-data-first"), sbits + (1 << sbits), Box::new(move |a: &[bool]| {
            let d = 1usize << sbits;
            let sel = (0..sbits).fold(0usize, |s, i| s * 2 + a[d + i] as usize);
            a[sel]
        })));
    }
    // a hash-like function with few regularities (skipped levels at many depths)
    for n in [7usize, 9, 11] {
        v.push((format!("scrambled{n}"), n, Box::new(move |a: &[bool]| {
            let x = a.iter().fold(0u64, |s, b| s * 2 + *b as u64);
            let h = x.wrapping_mul(0x9E37_79B9_7F4A_7C15).rotate_left(17) ^ x.wrapping_mul(0xC2B2_AE3D_27D4_EB4F);
            (h >> 23) & 3 == 0
        })));
    }
    if i < v.len() {
        Some(v.swap_remove(i))
    } else {
        None
    }
}

/// reduced ordered diagram of f over x1..xn (x1 on top), interned with mk_choice
fn build_big(env: &Rc<rsbdd::bdd::BDDEnv<NamedSymbol>>, n: usize, f: &dyn Fn(&[bool]) -> bool) -> HN {
    let syms: Vec<NamedSymbol> = (0..n).map(|i| sym(&format!("x{}", i + 1), 2 * i + 1)).collect();
    // truth table with x1 as the most significant index bit: cofactors are contiguous halves
    let mut tt = vec![false; 1 << n];
    let mut a = vec![false; n];
    for (idx, slot) in tt.iter_mut().enumerate() {
        for (i, ai) in a.iter_mut().enumerate() {
            *ai = (idx >> (n - 1 - i)) & 1 == 1;
        }
        *slot = f(&a);
    }
    fn go(env: &Rc<rsbdd::bdd::BDDEnv<NamedSymbol>>, syms: &[NamedSymbol], level: usize, tt: &[bool], memo: &mut rustc_hash::FxHashMap<(usize, Vec<bool>), HN>) -> HN {
        if tt.len() == 1 {
            return env.mk_const(tt[0]);
        }
        if let Some(h) = memo.get(&(level, tt.to_vec())) {
            return h.clone();
        }
        let half = tt.len() / 2;
        let r = if tt[..half] == tt[half..] {
            go(env, syms, level + 1, &tt[..half], memo)
        } else {
            let e = go(env, syms, level + 1, &tt[..half], memo);
            let t = go(env, syms, level + 1, &tt[half..], memo);
            env.mk_choice(t, syms[level].clone(), e)
        };
        memo.insert((level, tt.to_vec()), r.clone());
        r
    }
    go(env, &syms, 0, &tt, &mut rustc_hash::FxHashMap::default())
}

/// the exported graph is the diagram: same shape, labels and edge kinds, each diagram node
/// declared exactly once (and only the omitted leaf and the edges into it missing)
fn judge_bdd_dot_iso<S: rsbdd::BDDSymbol>(g: &DotGraph, f: &Rc<BDD<S>>, fi: usize) -> Vec<String> {
    let mut c = vec![];
    let mut ids: BTreeMap<&str, &str> = BTreeMap::new();
    for (id, l) in &g.nodes {
        if ids.insert(id, l).is_some() {
            c.push(format!("node {id} is declared twice"));
        }
    }
    let mut out: BTreeMap<&str, (Option<&str>, Option<&str>)> = BTreeMap::new();
    let mut indeg: BTreeMap<&str, usize> = ids.keys().map(|k| (*k, 0)).collect();
    for (u, w, l) in &g.edges {
        if !ids.contains_key(u.as_str()) || !ids.contains_key(w.as_str()) {
            c.push(format!("edge {u} -> {w} references an undeclared node"));
            continue;
        }
        if l != "T" && l != "F" {
            c.push(format!("edge label {l}"));
            continue;
        }
        let e = out.entry(u).or_insert((None, None));
        let slot = if l == "T" { &mut e.0 } else { &mut e.1 };
        if slot.is_some() {
            c.push(format!("node {u} has two {l} edges"));
        }
        *slot = Some(w);
        *indeg.entry(w).or_insert(0) += 1;
    }
    if !c.is_empty() {
        c.truncate(4);
        return c;
    }
    let omitted: Option<bool> = match fi {
        1 => Some(false),
        2 => Some(true),
        _ => None,
    };
    let is_omitted = |n: &BDD<S>| matches!((n, omitted), (BDD::True, Some(true)) | (BDD::False, Some(false)));
    // distinct sub-diagrams by address (the diagram is interned) — and structurally, as a cross-check
    let mut seen: Vec<*const BDD<S>> = vec![];
    let mut stack = vec![f.clone()];
    let mut shown = 0usize;
    while let Some(n) = stack.pop() {
        if seen.contains(&Rc::as_ptr(&n)) {
            continue;
        }
        seen.push(Rc::as_ptr(&n));
        if !is_omitted(&n) {
            shown += 1;
        }
        if let BDD::Choice(t, _, e) = n.as_ref() {
            stack.push(t.clone());
            stack.push(e.clone());
        }
    }
    if g.nodes.len() != shown {
        c.push(format!("{} nodes declared, the diagram has {} distinct sub-diagrams to show", g.nodes.len(), shown));
        return c;
    }
    if shown == 0 {
        return c;
    }
    let roots: Vec<&str> = indeg.iter().filter(|(_, d)| **d == 0).map(|(k, _)| *k).collect();
    if roots.len() != 1 {
        c.push(format!("{} root nodes (nodes without incoming edge)", roots.len()));
        return c;
    }
    // simultaneous walk
    let mut map: BTreeMap<&str, *const BDD<S>> = BTreeMap::new();
    let mut work: Vec<(&str, Rc<BDD<S>>)> = vec![(roots[0], f.clone())];
    while let Some((id, n)) = work.pop() {
        if let Some(p) = map.get(id) {
            if *p != Rc::as_ptr(&n) {
                c.push(format!("node {id} stands for two different sub-diagrams"));
                return c;
            }
            continue;
        }
        map.insert(id, Rc::as_ptr(&n));
        let label = ids[id];
        match n.as_ref() {
            BDD::True | BDD::False => {
                let want = if matches!(n.as_ref(), BDD::True) { "true" } else { "false" };
                if label != want || out.contains_key(id) {
                    c.push(format!("leaf {want} is exported as a node labelled '{label}'{}", if out.contains_key(id) { " with outgoing edges" } else { "" }));
                    return c;
                }
            }
            BDD::Choice(t, v, e) => {
                if label != v.to_string() {
                    c.push(format!("the test on {} is exported as a node labelled '{label}'", v));
                    return c;
                }
                let (dt, de) = out.get(id).copied().unwrap_or((None, None));
                for (edge, child, kind) in [(dt, t, "T"), (de, e, "F")] {
                    match (edge, is_omitted(child)) {
                        (Some(w), false) => work.push((w, child.clone())),
                        (None, true) => {}
                        (Some(_), true) => {
                            c.push(format!("the {kind} edge of a test on {} leads somewhere although its target is the omitted leaf", v));
                            return c;
                        }
                        (None, false) => {
                            c.push(format!("the {kind} edge of a test on {} is missing", v));
                            return c;
                        }
                    }
                }
            }
        }
    }
    if map.len() != g.nodes.len() {
        c.push(format!("{} declared nodes are not reachable from the root", g.nodes.len() - map.len()));
    }
    c
}

/// a user-defined symbol type whose `Hash` is coarser than its `Eq` / `Ord` (one bit of a named
/// bit-vector, hashed by the vector's name only) — legal for `BDDSymbol`
#[derive(Debug, Clone, PartialEq, Eq, PartialOrd, Ord)]
struct VecBit {
    vec: &'static str,
    bit: usize,
}
impl std::hash::Hash for VecBit {
    fn hash<H: std::hash::Hasher>(&self, h: &mut H) {
        self.vec.hash(h)
    }
}
impl std::fmt::Display for VecBit {
    fn fmt(&self, f: &mut std::fmt::Formatter<'_>) -> std::fmt::Result {
        write!(f, "{}_{}", self.vec, self.bit)
    }
}

/// every function of four variables over the symbols c_0 < x_0 < x_1 < x_2 x 3 filters: nodes
/// that differ only in symbols with equal hashes must still be told apart by the exporter
fn check_coarse_hash_export(ctx: &mut Ctx, tt: u64, fi: usize) {
    let case = json!({"part": "bdd-coarse-hash", "f": tt, "filter": fi});
    ctx.begin_case(|| case.clone());
    ctx.count("evaluations", 1);
    ctx.count("coarse_hash_symbol_diagrams", 1);
    let syms = [VecBit { vec: "c", bit: 0 }, VecBit { vec: "x", bit: 0 }, VecBit { vec: "x", bit: 1 }, VecBit { vec: "x", bit: 2 }];
    let env = rsbdd::bdd::BDDEnv::<VecBit>::new();
    fn go(env: &rsbdd::bdd::BDDEnv<VecBit>, syms: &[VecBit], tt: u64, level: usize, fixed: usize) -> Rc<BDD<VecBit>> {
        if level == syms.len() {
            return env.mk_const((tt >> fixed) & 1 == 1);
        }
        let t = go(env, syms, tt, level + 1, fixed | (1 << level));
        let e = go(env, syms, tt, level + 1, fixed);
        if Rc::ptr_eq(&t, &e) {
            t
        } else {
            env.mk_choice(t, syms[level].clone(), e)
        }
    }
    let d = match guarded(|| go(&env, &syms, tt, 0, 0)) {
        Ok(d) => d,
        Err(_) => return, // building is not this property's business
    };
    let key = format!("{TAG} diagram export over symbols with a coarse hash: f={tt:#x}, filter {:?}", filt(fi));
    let mut buf: Vec<u8> = vec![];
    if let Err(p) = guarded(|| BDDGraph::new(&d, filt(fi)).render_dot(&mut buf)) {
        ctx.violation(key, format!("render_dot panicked: {p}"), case);
        return;
    }
    let text = String::from_utf8_lossy(&buf).into_owned();
    match dot::parse(&text) {
        Err(e) => ctx.violation(key, format!("unreadable DOT: {e}"), case),
        Ok(g) => {
            let c = judge_bdd_dot_iso(&g, &d, fi);
            if !c.is_empty() {
                ctx.violation(key, format!("{}\n{text}", c.join("; ")), case);
            }
        }
    }
}

/// F9 witness: a diagram that is not interned anywhere and has two structurally equal internal
/// nodes at different addresses (a copy of ite(x0, x1 & x2, x1 | x2): the test on x2 occurs
/// twice). Exported, it references a node it does not declare.
fn check_f9_witness(ctx: &mut Ctx) {
    let case = json!({"part": "f9-witness"});
    ctx.begin_case(|| case.clone());
    ctx.count("evaluations", 1);
    let syms = named(3);
    let Ok(sp) = Space::<NamedSymbol>::by_interning(&syms) else { return };
    // ite(x0, x1 & x2, x1 | x2) as a truth table over (x0, x1, x2), bit i of the index = x_i
    let tt: u64 = (0..8u64).filter(|a| if a & 1 == 1 { a & 2 != 0 && a & 4 != 0 } else { a & 2 != 0 || a & 4 != 0 }).map(|a| 1u64 << a).sum();
    let f = robdd::deep_copy(&sp.get(tt));
    let mut buf: Vec<u8> = vec![];
    if guarded(|| BDDGraph::new(&f, filt(0)).render_dot(&mut buf)).is_err() {
        return;
    }
    let text = String::from_utf8_lossy(&buf).into_owned();
    if let Ok(g) = dot::parse(&text) {
        let c = judge_bdd_dot_iso(&g, &f, 0);
        if !c.is_empty() {
            ctx.violation(format!("{TAG} diagram export of a non-interned copy of ite(x0, x1 & x2, x1 | x2) (two equal internal nodes at different addresses)"), c.join("; "), case);
        }
    }
}

fn check_big_export(ctx: &mut Ctx, member: usize, fi: usize) {
    let Some((name, n, f)) = big_member(member) else { return };
    let case = json!({"part": "bdd-big", "member": member, "name": name, "filter": fi});
    ctx.begin_case(|| case.clone());
    ctx.count("evaluations", 1);
    ctx.count("big_diagrams", 1);
    let env = Rc::new(rsbdd::bdd::BDDEnv::<NamedSymbol>::new());
    let d = build_big(&env, n, f.as_ref());
    let key = format!("{TAG} diagram export: {name} ({} nodes), filter {:?}", robdd::distinct_nodes(&d).len(), filt(fi));
    let mut buf: Vec<u8> = vec![];
    if let Err(p) = guarded(|| BDDGraph::new(&d, filt(fi)).render_dot(&mut buf)) {
        ctx.violation(key, format!("render_dot panicked: {p}"), case);
        return;
    }
    let text = String::from_utf8_lossy(&buf).into_owned();
    ctx.distinct(&normalise_ids(&text));
    match dot::parse(&text) {
        Err(e) => ctx.violation(key, format!("unreadable DOT: {e}"), case),
        Ok(g) => {
            let c = judge_bdd_dot_iso(&g, &d, fi);
            if !c.is_empty() {
                ctx.violation(key, c.join("; "), case);
            }
        }
    }
}

fn run(ctx: &mut Ctx) {
    if ctx.shard == 0 {
        check_f9_witness(ctx);
    }
    {
        let mut idx = 1u64 << 40;
        let mut m = 0;
        while big_member(m).is_some() {
            for fi in 0..3 {
                idx += 1;
                if ctx.mine(idx) {
                    check_big_export(ctx, m, fi);
                }
            }
            m += 1;
        }
        for tt in 0..65536u64 {
            for fi in 0..3 {
                idx += 1;
                if ctx.mine(idx) && (ctx.thorough() || tt % 16 == 6 || tt < 512) {
                    check_coarse_hash_export(ctx, tt, fi);
                }
            }
        }
    }
    let th = ctx.thorough();
    for k in if th { vec![3usize, 4] } else { vec![3usize, 4] } {
        match Space::<NamedSymbol>::by_interning(&named(k)) {
            Err(e) => ctx.violation(format!("{TAG} building diagrams"), e, json!({"part": "bdd", "k": k, "f": 0, "filter": 0})),
            Ok(sp) => {
                let mut idx = 0;
                for tt in 0..sp.nfun() as u64 {
                    for fi in 0..3 {
                        idx += 1;
                        if ctx.mine(idx) {
                            check_bdd_export(ctx, &sp, tt, fi);
                        }
                    }
                }
            }
        }
    }
    match Space::<NamedSymbol>::by_interning(&named_exotic()) {
        Err(e) => ctx.violation(format!("{TAG} building diagrams"), e, json!({"part": "bdd-exotic", "f": 0, "filter": 0})),
        Ok(sp) => {
            let mut idx = 0;
            for tt in 0..sp.nfun() as u64 {
                for fi in 0..3 {
                    idx += 1;
                    if ctx.mine(idx) {
                        check_bdd_export(ctx, &sp, tt, fi);
                    }
                }
            }
        }
    }
    let mut g = Gen::new(tree_alpha());
    let mut idx = 0u64;
    for size in 1..=(if th { 4 } else { 3 }) {
        let mut todo = vec![];
        g.stream(size, &mut |a| {
            idx += 1;
            if ctx.mine(idx) {
                todo.push(a);
            }
        });
        for a in todo {
            check_tree_export(ctx, &refl::pp(&a, refl::MINIMAL));
            ctx.count("trees", 1);
        }
    }
    // larger trees: long binder lists, long operand lists, deep nesting
    {
        let name = |i: usize| format!("n{i}");
        let mut big: Vec<Ast> = vec![];
        for n in [9usize, 10, 17, 33, 70] {
            let vs: Vec<String> = (0..n).map(name).collect();
            big.push(Ast::Q(n % 2 == 0, vs.clone(), Box::new(Ast::bin(refl::Bin::And, Ast::var(&vs[0]), Ast::var("b")))));
            let ops: Vec<Ast> = (0..n.min(20)).map(|i| Ast::var(&name(i % 7))).collect();
            big.push(Ast::CC(refl::Cmp::AtLeast, ops.clone(), "3".into()));
            big.push(Ast::CV(refl::Cmp::LessThan, ops[..n.min(20) / 2].to_vec(), ops[n.min(20) / 2..].to_vec()));
            let mut chain = Ast::var("z");
            for i in 0..n {
                chain = if i % 3 == 0 { Ast::not(chain) } else { Ast::bin(ALL_BINS[i % 8], Ast::var(&name(i % 5)), chain) };
            }
            big.push(chain);
        }
        // comparisons whose operand lists concatenate to the same sequence but split differently,
        // same operator, side by side (and an empty side)
        {
            let v = |n: &str| Ast::var(n);
            for op in [refl::Cmp::Exactly, refl::Cmp::AtMost, refl::Cmp::MoreThan] {
                for (l1, r1, l2, r2) in [(vec!["a", "b"], vec!["c"], vec!["a"], vec!["b", "c"]), (vec!["a", "b", "c"], vec![], vec![], vec!["a", "b", "c"]), (vec!["a"], vec!["a"], vec!["a", "a"], vec![]), (vec!["a", "b"], vec!["a", "b"], vec!["a"], vec!["b", "a", "b"])] {
                    let cv = |l: &Vec<&str>, r: &Vec<&str>| Ast::CV(op, l.iter().map(|n| v(n)).collect(), r.iter().map(|n| v(n)).collect());
                    big.push(Ast::bin(refl::Bin::Or, cv(&l1, &r1), cv(&l2, &r2)));
                    big.push(Ast::bin(refl::Bin::Implies, cv(&l2, &r2), cv(&l1, &r1)));
                    // a list-vs-constant comparison next to a list-vs-list one over the same operands
                    big.push(Ast::bin(refl::Bin::And, Ast::CC(op, l1.iter().chain(r1.iter()).map(|n| v(n)).collect(), "1".into()), cv(&l1, &r1)));
                }
            }
        }
        for a in big {
            idx += 1;
            if ctx.mine(idx) {
                check_tree_export(ctx, &refl::pp(&a, refl::MINIMAL));
                ctx.count("trees_large", 1);
            }
        }
    }
    let set = cli_formula_set(if th { 4 } else { 3 });
    for (i, (a, _, _)) in set.iter().enumerate() {
        if ctx.mine(i as u64) {
            check_cli_files(ctx, &refl::pp(a, refl::MINIMAL));
        }
    }
    crate::cli::cleanup_scratch();
}

fn replay(ctx: &mut Ctx, c: &Value) {
    match c["part"].as_str() {
        Some("tree") => check_tree_export(ctx, c["text"].as_str().unwrap_or("")),
        Some("f9-witness") => check_f9_witness(ctx),
        Some("bdd-coarse-hash") => check_coarse_hash_export(ctx, c["f"].as_u64().unwrap_or(0), c["filter"].as_u64().unwrap_or(0) as usize),
        Some("bdd-big") => check_big_export(ctx, c["member"].as_u64().unwrap_or(0) as usize, c["filter"].as_u64().unwrap_or(0) as usize),
        Some("bdd-exotic") => {
            if let Ok(sp) = Space::<NamedSymbol>::by_interning(&named_exotic()) {
                check_bdd_export(ctx, &sp, c["f"].as_u64().unwrap_or(0), c["filter"].as_u64().unwrap_or(0) as usize);
            }
        }
        Some("cli") => {
            check_cli_files(ctx, c["text"].as_str().unwrap_or(""));
            crate::cli::cleanup_scratch();
        }
        _ => {
            let k = c["k"].as_u64().unwrap_or(3) as usize;
            if let Ok(sp) = Space::<NamedSymbol>::by_interning(&named(k)) {
                check_bdd_export(ctx, &sp, c["f"].as_u64().unwrap_or(0), c["filter"].as_u64().unwrap_or(0) as usize);
            }
        }
    }
}
