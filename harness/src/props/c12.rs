//! C12 — no input makes the parser or the command-line tool panic.

use crate::cli::{Channel, Inv};
use crate::conv::*;
use crate::enumerate::for_each_seq;
use crate::refl::{self, Ast, Sem};
use crate::runner::{Ctx, Engine};
use serde_json::{json, Value};

pub static ENGINE: Engine = Engine {
    prop: "C12",
    level: "exploration",
    rule: "every sentence of the grammar with <= 3 (4) syntax nodes over the full alphabet plus the every-node-kind-in-every-position family every sentence <= 5 nodes over a nested-binder alphabet (three fixed-point binder names) and every sentence <= 5 (6) nodes with an undefined {reference} leaf over a binder alphabet (parsed, evaluated, printed lookups); -b N for every N in 0..80; every byte string <= 2 (3) bytes over all 256 byte values; every sequence <= 4 (5) of lexemes over the 33 token kinds plus extreme lexemes (numbers around 2^63/2^64, 40 digits, non-ASCII digits, unbalanced quote/brace, NUL); flat inputs of every length 2^j, 2^j+-1 up to 64 KiB; every nesting depth 1..200 of 7 nesting constructs; each through tokenize, ParsedFormula::new and (when the reference says all fixed points converge) eval under catch_unwind. CLI: a formula core x every combination of {-t,-v,-m,-r,-d,-p} x {-c none/t/f} x {-f none/t/f} x {no ordering, reversed, superset, formula-as-ordering}, plus -b 0 / -b 2 x {-t,-v,-m,-r}; and/or chains over 8..257 variables and names of 24..1000 characters with the printing options; exit 101 / signal = violation. distinct = distinct (outcome class, token-list) pairs in-process + distinct (exit status, stdout) pairs for the CLI",
    assumptions: &[
        "resource exhaustion on inputs whose evaluation is exponential by design is outside the claim",
        "fixed points the reference model finds divergent are not evaluated; exhaustion of the 20000-iteration fuel is reported by C01/C06, not here",
    ],
    max_shards: 64,
    run,
    replay,
};

fn strip_refs(a: &Ast) -> Ast {
    let b = |x: &Ast| Box::new(strip_refs(x));
    let l = |v: &Vec<Ast>| v.iter().map(strip_refs).collect::<Vec<_>>();
    match a {
        Ast::Ref(_) => Ast::False,
        Ast::False | Ast::True | Ast::Var(_) => a.clone(),
        Ast::Not(x) => Ast::Not(b(x)),
        Ast::Q(e, vs, x) => Ast::Q(*e, vs.clone(), b(x)),
        Ast::Fp(n, g, x) => Ast::Fp(n.clone(), *g, b(x)),
        Ast::CC(o, v, n) => Ast::CC(*o, l(v), n.clone()),
        Ast::CV(o, v, w) => Ast::CV(*o, l(v), l(w)),
        Ast::Ite(c, t, e) => Ast::Ite(b(c), b(t), b(e)),
        Ast::Bin(o, x, y) => Ast::Bin(*o, b(x), b(y)),
    }
}

/// may this text be evaluated: the reference accepts it and every fixed point converges
fn evaluable(text: &str) -> bool {
    match refl::parse(text) {
        Err(_) => false,
        Ok(a) => {
            if !a.has_fp() {
                return true;
            }
            let names = a.names();
            if names.len() > 6 {
                return false;
            }
            Sem::new(&names).eval_closed(&strip_refs(&a)).is_some()
        }
    }
}

fn desc(bytes: &[u8]) -> Value {
    json!({"part": "bytes", "text": String::from_utf8_lossy(bytes), "bytes": bytes})
}

pub fn check_bytes(ctx: &mut Ctx, bytes: &[u8], eval_allowed: bool) {
    ctx.begin_case(|| desc(bytes));
    ctx.count("evaluations", 1);
    let key = || format!("bytes:{:?}", String::from_utf8_lossy(bytes));
    let utf8 = std::str::from_utf8(bytes).ok();
    // 1. tokenizer
    let toks = match impl_tokenize(bytes) {
        Err(p) => {
            ctx.violation(key(), format!("tokenize panicked: {p}"), desc(bytes));
            return;
        }
        Ok(Err(_)) => {
            ctx.count("tokenize_err", 1);
            None
        }
        Ok(Ok(t)) => {
            if utf8.is_none() {
                ctx.violation(key(), "invalid UTF-8 was tokenized instead of being rejected with Err".into(), desc(bytes));
            }
            Some(t)
        }
    };
    // 2. parser
    match impl_parse_bytes(bytes, None) {
        ImplParse::Panic(p) => ctx.violation(key(), format!("ParsedFormula::new panicked: {p}"), desc(bytes)),
        ImplParse::Err(_) => {
            ctx.count("parse_err", 1);
            if let Some(t) = &toks {
                ctx.distinct(&(0u8, t.len(), format!("{:?}", t)));
            }
        }
        ImplParse::Ok(p) => {
            ctx.count("parse_ok", 1);
            ctx.distinct(&(1u8, format!("{:?}", p.bdd)));
            // 3. evaluation + the index lookups printing performs
            if eval_allowed && utf8.map(evaluable).unwrap_or(false) {
                match impl_eval(&p) {
                    Err(m) if m.contains(rsbdd::verif_hooks::FUEL_EXHAUSTED_MARKER) => ctx.count("fuel_exhausted_not_judged_here", 1),
                    Err(m) => ctx.violation(key(), format!("eval panicked: {m}"), desc(bytes)),
                    Ok(b) => {
                        ctx.count("evaluated", 1);
                        let mut ls = vec![];
                        crate::robdd::labels(&b, &mut ls);
                        for l in ls {
                            if let Err(m) = crate::runner::guarded(|| p.to_free_index(&l)) {
                                ctx.violation(key(), format!("column lookup for result variable {l} panicked: {m}"), desc(bytes));
                            }
                        }
                        ctx.sample(|| json!({"text": String::from_utf8_lossy(bytes), "result": crate::robdd::show(&b)}));
                    }
                }
            }
        }
    }
}

fn byte_sweep(ctx: &mut Ctx) {
    let maxlen = if ctx.thorough() { 3 } else { 2 };
    let mut base = 0u64;
    for len in 0..=maxlen {
        let mut n = 0;
        let mut b: Vec<u8> = vec![];
        for_each_seq(256, len, &mut |idx, d| {
            n = idx + 1;
            if !ctx.mine(base + idx) {
                return;
            }
            b.clear();
            b.extend(d.iter().map(|x| *x as u8));
            check_bytes(ctx, &b, true);
        });
        base += n;
    }
}

pub fn extreme_lexemes() -> Vec<&'static str> {
    vec![
        "a", "b", "1", "{r}", "&", "|", "-", "^", "nor", "nand", "=>", "<=", "<=>", "if", "then", "else", "exists", "forall", "=", ">=", ">", "<", "(", ")", "[", "]", ",", "false", "true",
        "lfp", "gfp", "#", "X",
        // extremes
        "18446744073709551615",
        "18446744073709551616",
        "9223372036854775808",
        "9223372036854775807",
        "1234567890123456789012345678901234567890",
        "\u{663}",
        "\u{ff11}",
        "\"",
        "{",
        "\0",
        "\u{e9}'",
        "0",
    ]
}

fn soup_sweep(ctx: &mut Ctx) {
    let lex = extreme_lexemes();
    // the full alphabet (45 lexemes) to length 3 (4 thorough); length 4 (5) over a reduced
    // alphabet that keeps every extreme lexeme and one representative per grammar class
    let red: Vec<&str> = vec!["a", "[", "]", ",", ">=", ">", "<", "<=", "=", "-", "&", "(", ")", "lfp", "#", "X", "exists", "if", "then", "else", "true"]
        .into_iter()
        .chain(lex[33..].iter().cloned())
        .collect();
    let (full_len, red_len) = if ctx.thorough() { (4, 5) } else { (3, 4) };
    let mut base = 0u64;
    for (alpha, maxlen, lo) in [(&lex, full_len, 0usize), (&red, red_len, full_len + 1)] {
        for len in lo.min(maxlen)..=maxlen {
            let mut n = 0;
            let mut t = String::new();
            for_each_seq(alpha.len(), len, &mut |idx, d| {
                n = idx + 1;
                if !ctx.mine(base + idx) {
                    return;
                }
                t.clear();
                for (j, &i) in d.iter().enumerate() {
                    if j > 0 {
                        t.push(' ');
                    }
                    t.push_str(alpha[i]);
                }
                check_bytes(ctx, t.as_bytes(), true);
                ctx.count("lexeme_soups", 1);
            });
            base += n;
        }
    }
}

fn long_flat(ctx: &mut Ctx) {
    let mut lens: Vec<usize> = vec![];
    for j in 1..=16 {
        let p = 1usize << j;
        for l in [p - 1, p, p + 1] {
            if l >= 2 && l <= 65536 && !lens.contains(&l) {
                lens.push(l);
            }
        }
    }
    for l in 2..=40usize {
        if !lens.contains(&l) {
            lens.push(l);
        }
    }
    let mut idx = 0u64;
    for &l in &lens {
        let units: Vec<(&str, String)> = vec![
            ("identifier", "x".repeat(l)),
            ("comment", format!("\"{}\" a", "c".repeat(l.saturating_sub(4)))),
            ("digits", "7".repeat(l)),
            ("zeros", format!("{}1", "0".repeat(l - 1))),
            ("whitespace", format!("{}a", " ".repeat(l - 1))),
            ("stray", format!("{}a", "$".repeat(l - 1))),
            ("newlines", format!("a{}", "\n".repeat(l - 1))),
            ("quote_run", "\"".repeat(l)),
            ("brace_run", "{".repeat(l)),
        ];
        for (name, u) in units {
            for wrap in 0..3 {
                idx += 1;
                if !ctx.mine(idx) {
                    continue;
                }
                let text = match wrap {
                    0 => u.clone(),
                    1 => format!("[x] >= {u}"),
                    _ => format!("[{u}] >= 1"),
                };
                check_bytes(ctx, text.as_bytes(), true);
                ctx.count("long_flat", 1);
                let _ = name;
            }
        }
        // runs of non-ASCII decimal digits (2-, 3- and 4-byte encodings) and mixed runs
        if l <= 64 {
            for (name, d) in [("arabic-indic", "\u{663}"), ("devanagari", "\u{967}"), ("fullwidth", "\u{ff11}"), ("math-bold", "\u{1d7cf}")] {
                for text in [d.repeat(l), format!("1{}", d.repeat(l - 1)), format!("[a, b] >= {}", d.repeat(l)), format!("{}9", d.repeat(l - 1))] {
                    idx += 1;
                    if ctx.mine(idx) {
                        check_bytes(ctx, text.as_bytes(), true);
                        ctx.count("long_flat", 1);
                        let _ = name;
                    }
                }
            }
        }
        // long but flat lists / chains are only parsed (their evaluation cost is by design)
        for (wrap, text) in [
            format!("[{}] >= 1", vec!["a"; l / 2].join(",")),
            format!("exists {} # a", vec!["a"; l / 2].join(",")),
        ]
        .iter()
        .enumerate()
        {
            idx += 1;
            if ctx.mine(idx) {
                check_bytes(ctx, text.as_bytes(), l <= 16);
                ctx.count("long_flat", 1);
                let _ = wrap;
            }
        }
    }
}

pub fn nest(kind: usize, d: usize) -> String {
    match kind {
        0 => format!("{}a{}", "(".repeat(d), ")".repeat(d)),
        1 => format!("{}a", "-".repeat(d)),
        2 => format!("{}a", "exists a # ".repeat(d)),
        3 => format!("{}X", "lfp X # ".repeat(d)),
        4 => format!("{}a{}", "if a then ".repeat(d), " else b".repeat(d)),
        5 => format!("{}a{}", "[".repeat(d), "] >= 1".repeat(d)),
        6 => format!("{}a", "a & ".repeat(d)),
        7 => format!("{}X", "gfp X # a & ".repeat(d)),
        _ => format!("{}a{}", "if ".repeat(d), " then a else b".repeat(d)),
    }
}

fn nesting(ctx: &mut Ctx) {
    let mut idx = 0u64;
    for kind in 0..9 {
        for d in 1..=200usize {
            idx += 1;
            if !ctx.mine(idx) {
                continue;
            }
            let text = nest(kind, d);
            // nested non-trivial fixed points re-evaluate the inner one per outer iteration:
            // exponential by design, so only shallow ones are evaluated
            let eval = !(kind == 7 && d > 10);
            ctx.begin_case(|| json!({"part": "nest", "kind": kind, "depth": d}));
            check_bytes(ctx, text.as_bytes(), eval);
            ctx.count("nesting", 1);
        }
    }
}

pub fn cli_core(thorough: bool) -> Vec<&'static str> {
    let mut v = vec![
        "a",
        "true",
        "false",
        "a & b",
        "-a | b ^ c",
        "exists a # a & b",
        "forall a, b # a => c",
        "[a, b, c] = 1",
        "[a, b] < [c]",
        "if a then b else c",
        "(exists x, x # x & a) | x",
        "exists x # (mu x # x | a) & x",
        "x' <=> (x & -y')",
        "gr\u{f6}\u{df}e | b",
        "lfp X # X | a",
        "gfp X # X & (a | b)",
        "a & -a",
        "{r} | a",
        "",
        "a b",
        "(",
        "[a] >= 99999999999999999999999",
        "[a] > 18446744073709551615",
        "[a, b] >= 9223372036854775808",
        "[a] >= \u{663}",
        "\u{e9} & b'",
        "b & a & X",
    ];
    if thorough {
        v.extend([
            "a <=> b",
            "a nor b nand c",
            "[a, b] <= 1 & c",
            "[] = 0",
            "[a] < 0",
            "exists # a",
            "forall a # a",
            "nu X # mu Y # (X & a) | (Y & b)",
            "lfp X # a | (exists a # X & b)",
            "if a then true else false",
            "-(a & b) & -(b & c) & [a, b, c] >= 1",
            "a & (b | c",
            "]",
            "1",
            "\"comment only\"",
            "a \"unterminated",
            "{",
            "x_1 | x_2 & x_10",
        ]);
    }
    v
}

fn cli_invocations(formula: &str) -> Vec<Inv> {
    let mut out = vec![];
    let names = refl::parse(formula).map(|a| a.names()).unwrap_or_else(|_| vec!["a".into(), "b".into()]);
    let rev: Vec<String> = names.iter().rev().cloned().collect();
    let mut sup: Vec<String> = vec!["zz0".into()];
    for (i, n) in names.iter().enumerate() {
        sup.push(n.clone());
        sup.push(format!("zz{}", i + 1));
    }
    let orderings: Vec<Option<String>> = vec![None, Some(rev.join(" ")), Some(sup.join("\n")), Some(formula.to_string())];
    for ord in &orderings {
        for flags in 0..64u32 {
            for c in 0..3 {
                for f in 0..3 {
                    let mut opts: Vec<String> = vec![];
                    if flags & 1 != 0 {
                        opts.push("-t".into());
                    }
                    if flags & 2 != 0 {
                        opts.push("-v".into());
                    }
                    if flags & 4 != 0 {
                        opts.push("-m".into());
                    }
                    if flags & 8 != 0 {
                        opts.push("-r".into());
                    }
                    match c {
                        1 => opts.extend(["-c".to_string(), "t".to_string()]),
                        2 => opts.extend(["-c".to_string(), "f".to_string()]),
                        _ => {}
                    }
                    match f {
                        1 => opts.extend(["-f".to_string(), "True".to_string()]),
                        2 => opts.extend(["-f".to_string(), "0".to_string()]),
                        _ => {}
                    }
                    out.push(Inv {
                        formula: formula.as_bytes().to_vec(),
                        channel: if flags % 3 == 0 { Channel::Evaluate } else if flags % 3 == 1 { Channel::File } else { Channel::Stdin },
                        ordering: ord.as_ref().map(|o| o.as_bytes().to_vec()),
                        opts,
                        dot: flags & 16 != 0,
                        parsetree: flags & 32 != 0,
                    });
                }
            }
        }
    }
    // benchmark repetitions (incl. zero) with every combination of the four print flags
    for ord in &orderings {
        for b in ["0", "2"] {
            for flags in 0..16u32 {
                let mut opts: Vec<String> = vec!["-b".into(), b.into()];
                for (bit, f) in [(1, "-t"), (2, "-v"), (4, "-m"), (8, "-r")] {
                    if flags & bit != 0 {
                        opts.push(f.into());
                    }
                }
                out.push(Inv { formula: formula.as_bytes().to_vec(), channel: Channel::Evaluate, ordering: ord.as_ref().map(|o| o.as_bytes().to_vec()), opts, dot: flags & 3 == 3, parsetree: false });
            }
        }
    }
    out
}

fn check_cli(ctx: &mut Ctx, inv: &Inv) {
    ctx.begin_case(|| json!({"part": "cli", "inv": inv.to_json()}));
    ctx.count("evaluations", 1);
    ctx.count("cli_runs", 1);
    let r = inv.run();
    ctx.distinct(&(r.run.code, r.run.signal, &r.run.stdout));
    if r.run.crashed() {
        ctx.violation(format!("cli:{}", inv.key()), format!("the rsbdd binary crashed: {}; stderr: {}", r.run.describe(), r.run.err_tail()), json!({"part": "cli", "inv": inv.to_json()}));
    } else if r.run.ok() {
        ctx.count("cli_exit0", 1);
    } else {
        ctx.count("cli_error_exit", 1);
    }
}

fn cli_sweep(ctx: &mut Ctx) {
    let mut idx = 0u64;
    for f in cli_core(ctx.thorough()) {
        if !evaluable(f) && refl::parse(f).is_ok() {
            continue; // divergent fixed point: not a C12 input
        }
        for inv in cli_invocations(f) {
            idx += 1;
            if ctx.mine(idx) {
                check_cli(ctx, &inv);
            }
        }
    }
    // ordering files with more names than a machine word has bits, of which the formula uses a few
    for total in [63usize, 64, 65, 70, 128, 130, 300] {
        let names: Vec<String> = (1..=total).map(|i| format!("sensor_{i}")).collect();
        let f = format!("sensor_3 & (sensor_{} | -sensor_{total})", total - 2);
        for opts in [vec!["-t"], vec!["-v", "-r"], vec!["-t", "-m"]] {
            idx += 1;
            if ctx.mine(idx) {
                check_cli(ctx, &Inv::new(&f, &opts).with_ordering(&names.join("\n")));
            }
        }
    }
    // every benchmark repetition count 0..=80 and around the larger powers of two
    for f in ["(a & -b) | c", "true"] {
        for n in (0..=80usize).chain([99, 100, 101, 127, 128, 129, 255, 256, 257, 1000]) {
            for opts in [vec!["-t"], vec!["-v", "-r"]] {
                idx += 1;
                if ctx.mine(idx) {
                    let mut o: Vec<String> = opts.iter().map(|x| x.to_string()).collect();
                    o.extend(["-b".to_string(), n.to_string()]);
                    let o2: Vec<&str> = o.iter().map(|x| x.as_str()).collect();
                    check_cli(ctx, &Inv::new(f, &o2));
                }
            }
        }
    }
    // every lexeme soup of <= 2 (3) lexemes as formula and as ordering file, table + vars + dot
    let lex = extreme_lexemes();
    let maxlen = if ctx.thorough() { 3 } else { 2 };
    for len in 0..=maxlen {
        let mut todo: Vec<String> = vec![];
        for_each_seq(lex.len(), len, &mut |_, d| {
            idx += 1;
            if ctx.mine(idx) {
                todo.push(d.iter().map(|&i| lex[i]).collect::<Vec<_>>().join(" "));
            }
        });
        for t in todo {
            if refl::parse(&t).is_ok() && !evaluable(&t) {
                continue;
            }
            let mut inv = Inv::new(&t, &["-t", "-v", "-r"]);
            inv.channel = Channel::File;
            inv.dot = true;
            inv.parsetree = true;
            check_cli(ctx, &inv);
            let inv2 = Inv::new("b & a | c", &["-t", "-r"]).with_ordering(&t);
            check_cli(ctx, &inv2);
        }
    }
    // wide formulas: and/or chains over many variables (tables with > 64 columns), long names
    for n in [8usize, 33, 64, 65, 100, 130, 257] {
        for op in ["|", "&"] {
            let names: Vec<String> = (1..=n).map(|i| format!("input_{i:02}")).collect();
            let text = names.join(&format!(" {op} "));
            for opts in [vec!["-t"], vec!["-v"], vec!["-t", "-f", "t", "-m"], vec!["-r", "-t", "-c", "f"]] {
                idx += 1;
                if !ctx.mine(idx) {
                    continue;
                }
                let mut inv = Inv::new(&text, &opts);
                inv.channel = Channel::File;
                inv.dot = n <= 130;
                inv.parsetree = n <= 130;
                check_cli(ctx, &inv);
                let rev: Vec<String> = names.iter().rev().cloned().collect();
                let inv2 = Inv::new(&text, &opts).with_ordering(&rev.join("\n"));
                check_cli(ctx, &inv2);
            }
        }
    }
    for l in [24usize, 25, 26, 40, 64, 65, 128, 256, 1000] {
        idx += 1;
        if !ctx.mine(idx) {
            continue;
        }
        let base: String = "request_from_client_number_".chars().cycle().take(l).collect();
        let text = format!("{base}1 & -{base}2 | fallback");
        for opts in [vec!["-t"], vec!["-v", "-r"], vec!["-t", "-m"]] {
            let mut inv = Inv::new(&text, &opts);
            inv.dot = true;
            inv.parsetree = true;
            check_cli(ctx, &inv);
        }
    }
    crate::cli::cleanup_scratch();
}

/// every sentence of the grammar with <= 3 (4) nodes over the full alphabet (empty and short
/// lists on either side of every comparison, every binder, nested counting) and the
/// every-node-kind-in-every-position family: parsed, evaluated, looked up
fn sentence_sweep(ctx: &mut Ctx) {
    let mut g = crate::enumerate::Gen::new(crate::enumerate::full_alpha());
    let upto = if ctx.thorough() { 4 } else { 3 };
    let mut idx = 0u64;
    for n in 1..=upto {
        let mut todo: Vec<Ast> = vec![];
        g.stream(n, &mut |a| {
            idx += 1;
            if ctx.mine(idx) {
                todo.push(a);
            }
            if todo.len() >= 4096 {
                for a in todo.drain(..) {
                    check_bytes(ctx, refl::pp(&a, refl::MINIMAL).as_bytes(), true);
                    ctx.count("grammar_sentences", 1);
                }
            }
        });
        for a in todo.drain(..) {
            check_bytes(ctx, refl::pp(&a, refl::MINIMAL).as_bytes(), true);
            ctx.count("grammar_sentences", 1);
        }
    }
    for a in crate::enumerate::depth2_family() {
        idx += 1;
        if ctx.mine(idx) {
            check_bytes(ctx, refl::pp(&a, refl::MINIMAL).as_bytes(), true);
            ctx.count("grammar_sentences", 1);
        }
    }
    // nested binders: three fixed-point binder names, quantifiers, negation, & and |
    let mut g = crate::enumerate::Gen::new(crate::props::c01::binder_core());
    for n in 1..=5 {
        let mut todo: Vec<Ast> = vec![];
        g.stream(n, &mut |a| {
            idx += 1;
            if ctx.mine(idx) {
                todo.push(a);
            }
        });
        for a in todo {
            check_bytes(ctx, refl::pp(&a, refl::MINIMAL).as_bytes(), true);
            ctx.count("binder_sentences", 1);
        }
    }
    // sentences with `{reference}` leaves (never defined on this path) in every position,
    // in particular under binders and inside fixed-point bodies and counting lists
    let refs = crate::enumerate::Alpha {
        leaves: vec![Ast::var("a"), Ast::var("X"), Ast::Ref("r".into())],
        not: true,
        bins: vec![refl::Bin::And, refl::Bin::Implies],
        ite: true,
        quants: vec![(true, vec!["a".to_string()])],
        fps: vec![("X".to_string(), false), ("X".to_string(), true)],
        cmps: vec![refl::Cmp::AtLeast],
        nums: vec!["1".to_string()],
        cv: true,
        max_list: 2,
    };
    let mut g = crate::enumerate::Gen::new(refs);
    for n in 1..=(if ctx.thorough() { 6 } else { 5 }) {
        let mut todo: Vec<Ast> = vec![];
        g.stream(n, &mut |a| {
            idx += 1;
            if ctx.mine(idx) && a.has_ref() {
                todo.push(a);
            }
        });
        for a in todo {
            check_bytes(ctx, refl::pp(&a, refl::MINIMAL).as_bytes(), true);
            ctx.count("reference_sentences", 1);
        }
    }
}

fn run(ctx: &mut Ctx) {
    sentence_sweep(ctx);
    byte_sweep(ctx);
    soup_sweep(ctx);
    long_flat(ctx);
    nesting(ctx);
    cli_sweep(ctx);
}

fn replay(ctx: &mut Ctx, case: &Value) {
    match case["part"].as_str() {
        Some("cli") => {
            let inv = Inv::from_json(&case["inv"]);
            check_cli(ctx, &inv);
            crate::cli::cleanup_scratch();
        }
        Some("nest") => {
            let text = nest(case["kind"].as_u64().unwrap_or(0) as usize, case["depth"].as_u64().unwrap_or(1) as usize);
            check_bytes(ctx, text.as_bytes(), true);
        }
        _ => {
            let bytes: Vec<u8> = case["bytes"].as_array().map(|a| a.iter().map(|x| x.as_u64().unwrap_or(0) as u8).collect()).unwrap_or_else(|| case["text"].as_str().unwrap_or("").as_bytes().to_vec());
            check_bytes(ctx, &bytes, true);
        }
    }
}
