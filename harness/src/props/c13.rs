//! C13 — environment history never changes results; handed-out diagrams stay valid.
//! History exploration over the hidden state of `BDDEnv`: the contents of the unique table.

use crate::refl::{bin_tt, cmp_holds, exists_tt, forall_tt, Bin, Cmp, ALL_BINS, ALL_CMPS};
use crate::robdd;
use crate::runner::{guarded, Ctx, Engine};
use crate::space::Space;
use rsbdd::bdd::{BDDEnv, BDD};
use rsbdd::parser::ParsedFormula;
use rsbdd::{NamedSymbol, TruthTableEntry};
use rustc_hash::FxHashMap;
use serde_json::{json, Value};
use std::rc::Rc;

pub static ENGINE: Engine = Engine {
    prop: "C13",
    level: "model_checking",
    rule: "explicit-state exploration of the hidden state of BDDEnv<usize> for k=2 variables (ids 1,5): state = set of interned structures = child-closed subset of the 14 possible internal nodes (ALL such subsets are enumerated; each is built in a fresh real environment by a history of public mk_choice calls from the initial table, and the build is checked to yield exactly that table); transitions = every public operation (var, mk_const, not, 8 binary, ite, exists/all/exists_impl x variable lists <= 2, aln/amn/exn x operand lists <= 2 x n in -1..3, count_* x lists <= 1, model, infer, retain x 3 filters, clean, find, simplify, fp x 3 transformers, mk_choice with ordered arguments) on every tuple of currently interned nodes. After every transition: result == the same call in a minimal fresh environment (and == canon of the expected function where defined); every previously held handle unchanged; every table key equals its value, every child pointer of every table node and the result are Rc::ptr_eq to the table entry of the same structure; both leaves present; size() = number of keys; table only grows. Abstraction check: for every state-changing edge S -op1-> S1 the real post-history environment and build(S1) give identical results and identical successor tables for a set of follow-up operations. Long-lived histories: every sequence of 2 and 3 operations (not, all 8 binary connectives (3 at the third step in quick), exists, model, retain with both filters, clean on a pool of six functions plus earlier results; only the results are held, the operands are looked up in the table) on ONE environment, each result compared with a fresh environment, all earlier results re-inspected and the table invariants checked after every step. Transient operands: every connective on every pair of functions of three variables handed over as short-lived copies (addresses reused) in an environment holding their interned twins. Lean environments: for EVERY function of four variables a fresh environment in which only the function (built by an ite cascade) is held, then seven operations each executed twice: same node both times, canonical, every reachable sub-diagram is the table's entry. Definitions: every sequence <= 4 of {eval, define f, define g} on one ParsedFormula for eight texts with references; each evaluation must equal that of a fresh formula that got the same definitions first. Big table: one environment grown to ~66 000 nodes (1 200 variables, all 65 536 functions of four variables) with sharing and recomputation checks at checkpoints. Formula level: every sequence <= 3 of 12 formulas through ParsedFormula::new_with_env on one shared environment, once with an explicit ordering and once with each parse's own default ordering, vs fresh environments (variable lists by name and id, diagram) with re-inspection of all earlier results. distinct = distinct (state, operation, operands)",
    assumptions: &["state abstraction = table contents (validated by the abstraction check: equal tables have equal futures)", "k=2 for the complete exploration; larger variable sets only through the formula-level sequences"],
    max_shards: 64,
    run,
    replay,
};

const TAG: &str = "C13";
const SYMS: [usize; 2] = [1, 5];
/// variable pool for quantifier lists / infer: the two variables and one outside every support
const QVARS: [usize; 3] = [1, 5, 9];

type H = Rc<BDD<usize>>;

#[derive(Debug, Clone, PartialEq, Eq, Hash)]
pub enum HOp {
    Var(usize),
    Const(bool),
    Not(u8),
    Bin(Bin, u8, u8),
    Ite(u8, u8, u8),
    Exists(Vec<usize>, u8),
    All(Vec<usize>, u8),
    ExistsImpl(usize, u8),
    Aln(Vec<u8>, i64),
    Amn(Vec<u8>, i64),
    Exn(Vec<u8>, i64),
    Count(Cmp, Vec<u8>, Vec<u8>),
    Model(u8),
    Infer(u8, usize),
    Retain(u8, u8),
    Clean(u8),
    Find(u8),
    Simplify(u8),
    Fp(u8, u8),
    MkChoice(u8, usize, u8),
}

#[derive(Debug, Clone, PartialEq, Eq)]
pub enum Out {
    D(H),
    B(bool, bool),
}

fn filter(i: u8) -> TruthTableEntry {
    match i {
        0 => TruthTableEntry::True,
        1 => TruthTableEntry::False,
        _ => TruthTableEntry::Any,
    }
}

struct World {
    sp: Space<usize>,
    /// children (true-child tt, false-child tt) of every internal node, by tt
    kids: Vec<Option<(u8, u8)>>,
}

impl World {
    fn new() -> World {
        let sp = Space::<usize>::empty(&SYMS);
        let mut kids = vec![None; 16];
        for tt in 0..16u64 {
            if let BDD::Choice(t, _, f) = sp.canon(tt).as_ref() {
                kids[tt as usize] = Some((sp.tt(t).unwrap_or(0) as u8, sp.tt(f).unwrap_or(0) as u8));
            }
        }
        World { sp, kids }
    }
    fn child_closed(&self, mask: u16) -> bool {
        if mask & 1 == 0 || mask & (1 << 15) == 0 {
            return false;
        }
        (0..16).all(|tt| mask & (1 << tt) == 0 || self.kids[tt].map(|(t, f)| mask & (1 << t) != 0 && mask & (1 << f) != 0).unwrap_or(true))
    }
    fn all_states(&self) -> Vec<u16> {
        (0..=u16::MAX).filter(|m| self.child_closed(*m)).collect()
    }
    /// a fresh real environment driven into table state `mask` by public mk_choice calls
    fn build(&self, mask: u16) -> Space<usize> {
        let sp = Space::<usize>::empty(&SYMS);
        for tt in 0..16u64 {
            if mask & (1 << tt) != 0 {
                let c = sp.canon(tt);
                let _ = sp.intern(&c);
            }
        }
        sp
    }
    /// table contents as a mask; None if the table holds a structure outside the universe
    fn table_mask(&self, env: &BDDEnv<usize>) -> (u16, usize) {
        let mut m = 0u16;
        let mut foreign = 0;
        for k in env.nodes.borrow().keys() {
            match self.sp.tt(k) {
                Ok(t) if *self.sp.canon(t) == *k => m |= 1 << t,
                _ => foreign += 1,
            }
        }
        (m, foreign)
    }
    fn handle(&self, env: &BDDEnv<usize>, tt: u8) -> H {
        env.nodes.borrow().get(self.sp.canon(tt as u64).as_ref()).cloned().unwrap_or_else(|| panic!("machinery: node {tt:#x} not interned in the source state"))
    }
    fn handles_of(&self, mask: u16) -> Vec<u8> {
        (0..16u8).filter(|t| mask & (1 << t) != 0).collect()
    }
}

fn exec(w: &World, env: &BDDEnv<usize>, op: &HOp) -> Out {
    let h = |t: &u8| w.handle(env, *t);
    let hs = |v: &Vec<u8>| v.iter().map(h).collect::<Vec<H>>();
    let qv = |v: &Vec<usize>| v.iter().map(|i| QVARS[*i]).collect::<Vec<usize>>();
    Out::D(match op {
        HOp::Var(i) => env.var(SYMS[*i]),
        HOp::Const(b) => env.mk_const(*b),
        HOp::Not(a) => env.not(h(a)),
        HOp::Bin(b, x, y) => match b {
            Bin::And => env.and(h(x), h(y)),
            Bin::Or => env.or(h(x), h(y)),
            Bin::Xor => env.xor(h(x), h(y)),
            Bin::Nor => env.nor(h(x), h(y)),
            Bin::Nand => env.nand(h(x), h(y)),
            Bin::Implies => env.implies(h(x), h(y)),
            Bin::ImpliesInv => env.implies(h(y), h(x)),
            Bin::Iff => env.eq(h(x), h(y)),
        },
        HOp::Ite(a, b, c) => env.ite(h(a), h(b), h(c)),
        HOp::Exists(v, a) => env.exists(qv(v), h(a)),
        HOp::All(v, a) => env.all(qv(v), h(a)),
        HOp::ExistsImpl(i, a) => env.exists_impl(&QVARS[*i], h(a)),
        HOp::Aln(l, n) => env.aln(&hs(l), *n),
        HOp::Amn(l, n) => env.amn(&hs(l), *n),
        HOp::Exn(l, n) => env.exn(&hs(l), *n),
        HOp::Count(c, l, r) => match c {
            Cmp::AtMost => env.count_leq(&hs(l), &hs(r)),
            Cmp::LessThan => env.count_lt(&hs(l), &hs(r)),
            Cmp::AtLeast => env.count_geq(&hs(l), &hs(r)),
            Cmp::MoreThan => env.count_gt(&hs(l), &hs(r)),
            Cmp::Exactly => env.count_eq(&hs(l), &hs(r)),
        },
        HOp::Model(a) => env.model(h(a)),
        HOp::Infer(a, i) => {
            let (x, y) = env.infer(h(a), QVARS[*i]);
            return Out::B(x, y);
        }
        HOp::Retain(f, a) => env.retain_choice_bottom_up(h(a), filter(*f)),
        HOp::Clean(a) => env.clean(h(a)),
        HOp::Find(a) => env.find(&h(a)),
        HOp::Simplify(a) => env.simplify(&h(a)),
        HOp::Fp(which, a) => match which {
            0 => env.fp(h(a), |x| env.or(x, env.var(SYMS[0]))),
            1 => env.fp(h(a), |x| env.and(x, env.var(SYMS[1]))),
            _ => env.fp(h(a), |x| env.not(env.not(x))),
        },
        HOp::MkChoice(t, i, f) => env.mk_choice(h(t), SYMS[*i], h(f)),
    })
}

/// expected function of the result where the operation's meaning is defined elsewhere
fn expected_tt(op: &HOp) -> Option<u64> {
    let k = 2;
    let full = 0xfu64;
    let v = |i: usize| crate::refl::var_tt(2, i);
    let count = |l: &Vec<u8>, a: usize| l.iter().filter(|t| (**t >> a) & 1 == 1).count() as i64;
    Some(match op {
        HOp::Var(i) => v(*i),
        HOp::Const(b) => {
            if *b {
                full
            } else {
                0
            }
        }
        HOp::Not(a) => !(*a as u64) & full,
        HOp::Bin(b, x, y) => bin_tt(*b, *x as u64, *y as u64, full),
        HOp::Ite(a, b, c) => {
            let (a, b, c) = (*a as u64, *b as u64, *c as u64);
            (a & b) | (!a & c & full)
        }
        HOp::Exists(vs, a) | HOp::All(vs, a) => {
            let mut t = *a as u64;
            for i in vs {
                if *i < k {
                    t = if matches!(op, HOp::Exists(..)) { exists_tt(k, *i, t) } else { forall_tt(k, *i, t) };
                }
            }
            t
        }
        HOp::ExistsImpl(i, a) => {
            if *i < k {
                exists_tt(k, *i, *a as u64)
            } else {
                *a as u64
            }
        }
        HOp::Aln(l, n) | HOp::Amn(l, n) | HOp::Exn(l, n) => {
            let mut r = 0;
            for a in 0..4 {
                let c = count(l, a);
                let ok = match op {
                    HOp::Aln(..) => c >= *n,
                    HOp::Amn(..) => c <= *n,
                    _ => c == *n,
                };
                if ok {
                    r |= 1 << a;
                }
            }
            r
        }
        HOp::Count(c, l, rr) => {
            let mut r = 0;
            for a in 0..4 {
                if cmp_holds(*c, count(l, a) as u128, count(rr, a) as u128) {
                    r |= 1 << a;
                }
            }
            r
        }
        HOp::Clean(a) | HOp::Find(a) | HOp::Simplify(a) => *a as u64,
        HOp::Retain(2, a) => *a as u64,
        HOp::Fp(0, a) => *a as u64 | v(0),
        HOp::Fp(1, a) => *a as u64 & v(1),
        HOp::Fp(_, a) => *a as u64,
        HOp::MkChoice(t, i, f) => (v(*i) & *t as u64) | (!v(*i) & *f as u64 & full),
        HOp::Model(_) | HOp::Infer(..) | HOp::Retain(..) => return None,
    })
}

fn operands(op: &HOp) -> Vec<u8> {
    match op {
        HOp::Var(_) | HOp::Const(_) => vec![],
        HOp::Not(a) | HOp::Exists(_, a) | HOp::All(_, a) | HOp::ExistsImpl(_, a) | HOp::Model(a) | HOp::Infer(a, _) | HOp::Retain(_, a) | HOp::Clean(a) | HOp::Find(a) | HOp::Simplify(a) | HOp::Fp(_, a) => vec![*a],
        HOp::Bin(_, a, b) => vec![*a, *b],
        HOp::Ite(a, b, c) => vec![*a, *b, *c],
        HOp::Aln(l, _) | HOp::Amn(l, _) | HOp::Exn(l, _) => l.clone(),
        HOp::Count(_, l, r) => l.iter().chain(r.iter()).cloned().collect(),
        HOp::MkChoice(t, _, f) => vec![*t, *f],
    }
}

#[derive(Clone, Copy)]
struct Scope {
    ite: bool,
    count_list: usize,
    count_cmp: bool,
    quant_len: usize,
}

fn ops_for(w: &World, mask: u16, sc: Scope) -> Vec<HOp> {
    let hs = w.handles_of(mask);
    let mut v = vec![HOp::Var(0), HOp::Var(1), HOp::Const(true), HOp::Const(false)];
    let qlists = crate::enumerate::lists_upto(QVARS.len(), sc.quant_len);
    for &a in &hs {
        v.push(HOp::Not(a));
        v.push(HOp::Model(a));
        v.push(HOp::Clean(a));
        v.push(HOp::Find(a));
        v.push(HOp::Simplify(a));
        for f in 0..3 {
            v.push(HOp::Retain(f, a));
            v.push(HOp::Fp(f, a));
        }
        for i in 0..QVARS.len() {
            v.push(HOp::Infer(a, i));
            v.push(HOp::ExistsImpl(i, a));
        }
        for l in &qlists {
            v.push(HOp::Exists(l.clone(), a));
            v.push(HOp::All(l.clone(), a));
        }
    }
    for b in ALL_BINS {
        for &x in &hs {
            for &y in &hs {
                v.push(HOp::Bin(b, x, y));
            }
        }
    }
    if sc.ite {
        for &a in &hs {
            for &b in &hs {
                for &c in &hs {
                    v.push(HOp::Ite(a, b, c));
                }
            }
        }
    }
    let lists: Vec<Vec<u8>> = crate::enumerate::lists_upto(hs.len(), sc.count_list).into_iter().map(|l| l.into_iter().map(|i| hs[i]).collect()).collect();
    for l in &lists {
        for n in -1..=3i64 {
            v.push(HOp::Aln(l.clone(), n));
            v.push(HOp::Amn(l.clone(), n));
            v.push(HOp::Exn(l.clone(), n));
        }
    }
    if sc.count_cmp {
        let short: Vec<Vec<u8>> = lists.iter().filter(|l| l.len() <= 1).cloned().collect();
        for l in &short {
            for r in &short {
                for c in ALL_CMPS {
                    v.push(HOp::Count(c, l.clone(), r.clone()));
                }
            }
        }
    }
    // mk_choice with ordered arguments: children must not mention the variable or one above it
    let below0: Vec<u8> = hs.iter().cloned().filter(|t| !crate::refl::depends_tt(2, 0, *t as u64)).collect();
    let consts: Vec<u8> = hs.iter().cloned().filter(|t| *t == 0 || *t == 15).collect();
    for &t in &below0 {
        for &f in &below0 {
            v.push(HOp::MkChoice(t, 0, f));
        }
    }
    for &t in &consts {
        for &f in &consts {
            v.push(HOp::MkChoice(t, 1, f));
        }
    }
    v
}

fn op_json(mask: u16, op: &HOp, follow: Option<&HOp>) -> Value {
    json!({"part": "table", "state": mask, "op": format!("{:?}", op), "op_enc": enc_op(op), "follow": follow.map(enc_op)})
}

// a compact, parseable encoding of operations for replay files
fn enc_op(op: &HOp) -> Value {
    match op {
        HOp::Var(i) => json!(["var", i]),
        HOp::Const(b) => json!(["const", b]),
        HOp::Not(a) => json!(["not", a]),
        HOp::Bin(b, x, y) => json!(["bin", format!("{:?}", b), x, y]),
        HOp::Ite(a, b, c) => json!(["ite", a, b, c]),
        HOp::Exists(v, a) => json!(["exists", v, a]),
        HOp::All(v, a) => json!(["all", v, a]),
        HOp::ExistsImpl(i, a) => json!(["exists_impl", i, a]),
        HOp::Aln(l, n) => json!(["aln", l, n]),
        HOp::Amn(l, n) => json!(["amn", l, n]),
        HOp::Exn(l, n) => json!(["exn", l, n]),
        HOp::Count(c, l, r) => json!(["count", format!("{:?}", c), l, r]),
        HOp::Model(a) => json!(["model", a]),
        HOp::Infer(a, i) => json!(["infer", a, i]),
        HOp::Retain(f, a) => json!(["retain", f, a]),
        HOp::Clean(a) => json!(["clean", a]),
        HOp::Find(a) => json!(["find", a]),
        HOp::Simplify(a) => json!(["simplify", a]),
        HOp::Fp(w, a) => json!(["fp", w, a]),
        HOp::MkChoice(t, i, f) => json!(["mk_choice", t, i, f]),
    }
}
fn dec_op(v: &Value) -> Option<HOp> {
    let a = v.as_array()?;
    let u8at = |i: usize| a.get(i).and_then(Value::as_u64).map(|x| x as u8);
    let usz = |i: usize| a.get(i).and_then(Value::as_u64).map(|x| x as usize);
    let l8 = |i: usize| a.get(i).and_then(Value::as_array).map(|l| l.iter().map(|x| x.as_u64().unwrap_or(0) as u8).collect::<Vec<u8>>());
    let lus = |i: usize| a.get(i).and_then(Value::as_array).map(|l| l.iter().map(|x| x.as_u64().unwrap_or(0) as usize).collect::<Vec<usize>>());
    Some(match a.first()?.as_str()? {
        "var" => HOp::Var(usz(1)?),
        "const" => HOp::Const(a.get(1)?.as_bool()?),
        "not" => HOp::Not(u8at(1)?),
        "bin" => HOp::Bin(*ALL_BINS.iter().find(|b| format!("{:?}", b) == a.get(1).and_then(Value::as_str).unwrap_or(""))?, u8at(2)?, u8at(3)?),
        "ite" => HOp::Ite(u8at(1)?, u8at(2)?, u8at(3)?),
        "exists" => HOp::Exists(lus(1)?, u8at(2)?),
        "all" => HOp::All(lus(1)?, u8at(2)?),
        "exists_impl" => HOp::ExistsImpl(usz(1)?, u8at(2)?),
        "aln" => HOp::Aln(l8(1)?, a.get(2)?.as_i64()?),
        "amn" => HOp::Amn(l8(1)?, a.get(2)?.as_i64()?),
        "exn" => HOp::Exn(l8(1)?, a.get(2)?.as_i64()?),
        "count" => HOp::Count(*ALL_CMPS.iter().find(|c| format!("{:?}", c) == a.get(1).and_then(Value::as_str).unwrap_or(""))?, l8(2)?, l8(3)?),
        "model" => HOp::Model(u8at(1)?),
        "infer" => HOp::Infer(u8at(1)?, usz(2)?),
        "retain" => HOp::Retain(u8at(1)?, u8at(2)?),
        "clean" => HOp::Clean(u8at(1)?),
        "find" => HOp::Find(u8at(1)?),
        "simplify" => HOp::Simplify(u8at(1)?),
        "fp" => HOp::Fp(u8at(1)?, u8at(2)?),
        "mk_choice" => HOp::MkChoice(u8at(1)?, usz(2)?, u8at(3)?),
        _ => return None,
    })
}

/// the structural invariants of the table; returns complaints
fn table_invariants(env: &BDDEnv<usize>, extra: &[&H]) -> Vec<String> {
    let mut out = vec![];
    let nodes = env.nodes.borrow();
    if !nodes.contains_key(&BDD::True) || !nodes.contains_key(&BDD::False) {
        out.push("a leaf is missing from the environment".to_string());
    }
    if env.size() != nodes.len() {
        out.push(format!("size() = {} but the table holds {} structures", env.size(), nodes.len()));
    }
    let shared = |n: &H, out: &mut Vec<String>, what: &str| match nodes.get(n.as_ref()) {
        None => out.push(format!("{what} {} is not in the table", robdd::show(n))),
        Some(e) if !Rc::ptr_eq(e, n) => out.push(format!("{what} {} is a second copy of a node that exists in the table (sharing broken)", robdd::show(n))),
        _ => {}
    };
    for (k, v) in nodes.iter() {
        if *k != **v {
            out.push(format!("table key {} maps to a different structure {}", robdd::show(k), robdd::show(v)));
        }
        if let BDD::Choice(t, _, f) = v.as_ref() {
            shared(t, &mut out, "child");
            shared(f, &mut out, "child");
        }
    }
    for e in extra {
        shared(e, &mut out, "handed-out diagram");
        // every sub-diagram reachable from a handed-out diagram is the shared table node
        for n in robdd::distinct_nodes(e) {
            if !Rc::ptr_eq(&n, e) {
                shared(&n, &mut out, "sub-diagram of a handed-out diagram");
            }
        }
    }
    out.dedup();
    out
}

struct Memo {
    fresh: FxHashMap<HOp, Result<Out, String>>,
}

/// the same call in a minimal fresh environment (only the operands are interned)
fn fresh_result(w: &World, memo: &mut Memo, op: &HOp) -> Result<Out, String> {
    if let Some(r) = memo.fresh.get(op) {
        return r.clone();
    }
    let mut mask: u16 = 1 | (1 << 15);
    // child-closure of the operands
    let mut stack = operands(op);
    while let Some(t) = stack.pop() {
        if mask & (1 << t) == 0 {
            mask |= 1 << t;
            if let Some((a, b)) = w.kids[t as usize] {
                stack.push(a);
                stack.push(b);
            }
        }
    }
    let sp = w.build(mask);
    let r = guarded(|| exec(w, &sp.env, op));
    memo.fresh.insert(op.clone(), r.clone());
    r
}

struct StepResult {
    out: Out,
    next: u16,
}

/// execute `op` in `env` (whose table is `mask`) and check every invariant of the property
fn step(ctx: &mut Ctx, w: &World, memo: &mut Memo, env: &BDDEnv<usize>, mask: u16, op: &HOp, key: &dyn Fn() -> String, case: &dyn Fn() -> Value) -> Option<StepResult> {
    ctx.count("transitions", 1);
    // all handles of the source state are held across the call
    let held: Vec<(u8, H, H)> = w.handles_of(mask).into_iter().map(|t| (t, w.handle(env, t), robdd::deep_copy(&w.handle(env, t)))).collect();
    let out = match guarded(|| exec(w, env, op)) {
        Err(p) => {
            ctx.violation(key(), format!("operation panicked: {p}"), case());
            return None;
        }
        Ok(o) => o,
    };
    let mut complaints: Vec<String> = vec![];
    // (1) independent of history: identical to the call in a fresh environment
    match fresh_result(w, memo, op) {
        Err(p) => complaints.push(format!("the same call panicked in a fresh environment: {p}")),
        Ok(fr) => {
            if fr != out {
                complaints.push(format!("result differs from the same call in a fresh environment: here {:?}, fresh {:?}", show_out(&out), show_out(&fr)));
            }
        }
    }
    if let (Some(want), Out::D(d)) = (expected_tt(op), &out) {
        if **d != *w.sp.canon(want) {
            complaints.push(format!("result {} is not the diagram of the expected function {want:#x}", robdd::show(d)));
        }
    }
    // (2) handles handed out earlier are unchanged
    for (t, h, snap) in &held {
        if **h != **snap || w.sp.tt(h).ok() != Some(*t as u64) {
            complaints.push(format!("a diagram handed out earlier (function {t:#x}) changed"));
        }
    }
    // (3)+(4) sharing and leaves
    let mut extra: Vec<&H> = held.iter().map(|(_, h, _)| h).collect();
    if let Out::D(d) = &out {
        extra.push(d);
    }
    complaints.extend(table_invariants(env, &extra));
    let (next, _foreign) = w.table_mask(env);
    if next & mask != mask {
        complaints.push("an interned node disappeared from the table".to_string());
    }
    if !complaints.is_empty() {
        complaints.truncate(4);
        ctx.violation(key(), complaints.join("; "), case());
        return None;
    }
    Some(StepResult { out, next })
}

fn show_out(o: &Out) -> String {
    match o {
        Out::D(d) => robdd::show(d),
        Out::B(a, b) => format!("({a}, {b})"),
    }
}

fn follow_ops(w: &World, mask: u16) -> Vec<HOp> {
    let hs = w.handles_of(mask);
    let mut v = vec![];
    for &a in &hs {
        v.push(HOp::Not(a));
        v.push(HOp::Model(a));
        v.push(HOp::Exists(vec![0], a));
        v.push(HOp::Retain(0, a));
        for &b in &hs {
            v.push(HOp::Bin(Bin::And, a, b));
            v.push(HOp::Bin(Bin::Xor, a, b));
        }
    }
    v
}

fn explore_state(ctx: &mut Ctx, w: &World, memo: &mut Memo, mask: u16, sc: Scope, abstraction: bool) {
    let ops = ops_for(w, mask, sc);
    let mut seen_edges: Vec<u16> = vec![];
    for op in &ops {
        let key = || format!("{TAG} table state {mask:#06x}: {:?}", op);
        let case = || op_json(mask, op, None);
        ctx.begin_case(&case);
        let sp = w.build(mask);
        // machinery self-check: the build must yield exactly the state
        let (m0, _) = w.table_mask(&sp.env);
        if m0 != mask {
            // mk_choice itself misbehaves: that is a violation of C13 (table contents)
            ctx.violation(format!("{TAG} building table state {mask:#06x}"), format!("interning the nodes of state {mask:#06x} through mk_choice produced table {m0:#06x}"), case());
            return;
        }
        ctx.count("distinct_by_construction", 1);
        let Some(r) = step(ctx, w, memo, &sp.env, mask, op, &key, &case) else { continue };
        ctx.sample(|| json!({"state": format!("{mask:#06x}"), "op": format!("{:?}", op), "result": show_out(&r.out), "next_state": format!("{:#06x}", r.next)}));
        // abstraction check on state-changing edges (once per distinct successor)
        if abstraction && r.next != mask && !seen_edges.contains(&r.next) {
            seen_edges.push(r.next);
            ctx.count("abstraction_edges", 1);
            for f in follow_ops(w, r.next) {
                // on the real post-history environment: re-run the history, then the follow-up
                let spa = w.build(mask);
                if guarded(|| exec(w, &spa.env, op)).is_err() {
                    break;
                }
                let key2 = || format!("{TAG} table state {mask:#06x}: {:?} then {:?}", op, f);
                let case2 = || op_json(mask, op, Some(&f));
                ctx.begin_case(&case2);
                let ra = step(ctx, w, memo, &spa.env, r.next, &f, &key2, &case2);
                let spb = w.build(r.next);
                let rb = guarded(|| exec(w, &spb.env, &f));
                if let (Some(ra), Ok(rb)) = (ra, rb) {
                    let nb = w.table_mask(&spb.env).0;
                    if ra.out != rb || ra.next != nb {
                        ctx.violation(key2(), format!("equal tables, different futures: after the real history the follow-up gives {} / table {:#06x}, from the rebuilt state {} / table {:#06x}", show_out(&ra.out), ra.next, show_out(&rb), nb), case2());
                    }
                }
            }
        }
    }
}


// ---------------------------------------------------------------------------------------
// long-lived API histories: every sequence of operations on ONE environment

const POOL: [u8; 6] = [0xa, 0xc, 0x5, 0x8, 0xe, 0x6];

fn hist_ops(pool: &[u8], bins: &[Bin]) -> Vec<HOp> {
    let mut v = vec![];
    for &a in pool {
        v.push(HOp::Not(a));
        v.push(HOp::Model(a));
        v.push(HOp::Retain(0, a));
        v.push(HOp::Retain(1, a));
        v.push(HOp::Clean(a));
        v.push(HOp::Exists(vec![0], a));
        v.push(HOp::Exists(vec![1], a));
        for &b in pool {
            for op in bins {
                v.push(HOp::Bin(*op, a, b));
            }
        }
    }
    v
}

/// base construction through public connectives (itself part of every history)
fn hist_env(w: &World) -> Space<usize> {
    let sp = Space::<usize>::empty(&SYMS);
    let e = &sp.env;
    let a = e.var(SYMS[0]);
    let b = e.var(SYMS[1]);
    let _ = e.not(a.clone());
    let _ = e.and(a.clone(), b.clone());
    let _ = e.or(a.clone(), b.clone());
    let _ = e.xor(a, b);
    let _ = w;
    sp
}

fn hist_case(ops: &[HOp]) -> Value {
    json!({"part": "history", "ops": ops.iter().map(enc_op).collect::<Vec<_>>(), "shown": ops.iter().map(|o| format!("{:?}", o)).collect::<Vec<_>>()})
}

fn run_history(ctx: &mut Ctx, w: &World, memo: &mut Memo, ops: &[HOp]) {
    ctx.begin_case(|| hist_case(ops));
    ctx.count("history_sequences", 1);
    ctx.count("distinct_by_construction", 1);
    let sp = match guarded(|| hist_env(w)) {
        Ok(s) => s,
        Err(p) => {
            ctx.violation(format!("{TAG} history: base construction"), format!("panicked: {p}"), hist_case(&[]));
            return;
        }
    };
    let mut held: Vec<(H, H)> = vec![];
    for (i, op) in ops.iter().enumerate() {
        ctx.count("transitions", 1);
        let key = || format!("{TAG} one environment: var,var,not,and,or,xor then {:?}", &ops[..=i]);
        // operands must be interned by now (base functions or earlier results)
        if operands(op).iter().any(|t| sp.env.nodes.borrow().get(w.sp.canon(*t as u64).as_ref()).is_none()) {
            return; // operand is not available in this history: not a case
        }
        let out = match guarded(|| exec(w, &sp.env, op)) {
            Err(p) => {
                ctx.violation(key(), format!("operation panicked: {p}"), hist_case(&ops[..=i]));
                return;
            }
            Ok(o) => o,
        };
        let mut c = vec![];
        match fresh_result(w, memo, op) {
            Ok(fr) if fr != out => c.push(format!("result {} differs from the same call in a fresh environment ({})", show_out(&out), show_out(&fr))),
            Err(p) => c.push(format!("the same call panicked in a fresh environment: {p}")),
            _ => {}
        }
        if let (Some(want), Out::D(d)) = (expected_tt(op), &out) {
            if **d != *w.sp.canon(want) {
                c.push(format!("result {} is not the diagram of the expected function {want:#x}", robdd::show(d)));
            }
        }
        for (h, snap) in &held {
            if **h != **snap {
                c.push("a diagram handed out earlier changed".to_string());
            }
        }
        let extra: Vec<&H> = held.iter().map(|(h, _)| h).chain(if let Out::D(d) = &out { Some(d) } else { None }).collect();
        c.extend(table_invariants(&sp.env, &extra));
        if !c.is_empty() {
            c.truncate(3);
            ctx.violation(key(), c.join("; "), hist_case(&ops[..=i]));
            return;
        }
        if let Out::D(d) = out {
            held.push((d.clone(), robdd::deep_copy(&d)));
        }
    }
}

fn api_histories(ctx: &mut Ctx, w: &World, memo: &mut Memo) {
    let all_bins = ALL_BINS;
    let few_bins = [Bin::And, Bin::Or, Bin::Xor];
    let th = ctx.thorough();
    let mut idx = 0u64;
    // results of earlier steps join the operand pool of later steps
    fn result_tt(w: &World, memo: &mut Memo, op: &HOp) -> Option<u8> {
        match fresh_result(w, memo, op) {
            Ok(Out::D(d)) => w.sp.tt(&d).ok().map(|t| t as u8),
            _ => None,
        }
    }
    let ext = |pool: &[u8], t: Option<u8>| -> Vec<u8> {
        let mut p = pool.to_vec();
        if let Some(t) = t {
            if !p.contains(&t) {
                p.push(t);
            }
        }
        p
    };
    for op1 in hist_ops(&POOL, &all_bins) {
        let p2 = ext(&POOL, result_tt(w, memo, &op1));
        for op2 in hist_ops(&p2, &all_bins) {
            idx += 1;
            if ctx.mine(idx) {
                run_history(ctx, w, memo, &[op1.clone(), op2.clone()]);
            }
            // third step: full alphabet in thorough, and/or/xor in quick
            let deep_ok = th || (matches!(&op1, HOp::Bin(b, ..) if few_bins.contains(b)) || !matches!(&op1, HOp::Bin(..))) && (matches!(&op2, HOp::Bin(b, ..) if few_bins.contains(b)) || !matches!(&op2, HOp::Bin(..)));
            if !deep_ok {
                continue;
            }
            idx += 1;
            if !ctx.mine(idx) {
                continue;
            }
            let p3 = ext(&p2, result_tt(w, memo, &op2));
            for op3 in hist_ops(&p3, if th { &all_bins } else { &few_bins }) {
                run_history(ctx, w, memo, &[op1.clone(), op2.clone(), op3]);
            }
        }
    }
}


// ---------------------------------------------------------------------------------------
// lean environments over four variables: only what the history itself produced is alive

/// For EVERY function f of four variables: a fresh environment, f built by a Shannon cascade of
/// `ite` calls on variables (every intermediate result dropped at once, only f is held), then
/// each of seven follow-up operations executed TWICE. The second execution must return the
/// very node of the first (a result is independent of what was computed before and exists
/// once), both must be the canonical diagram, f must be unchanged, and after every step each
/// sub-diagram reachable from a held result must be the table's own entry.
fn lean_recompute(ctx: &mut Ctx) {
    const S4: [usize; 4] = [1, 5, 6, 12];
    let reference = Space::<usize>::empty(&S4);
    fn shannon(e: &BDDEnv<usize>, tt: u64, level: usize, fixed: usize) -> H {
        if level == 4 {
            return e.mk_const((tt >> fixed) & 1 == 1);
        }
        let t = shannon(e, tt, level + 1, fixed | (1 << level));
        let f = shannon(e, tt, level + 1, fixed);
        e.ite(e.var(S4[level]), t, f)
    }
    for f in 0..65536u64 {
        if !ctx.mine(f) {
            continue;
        }
        let case = json!({"part": "lean", "f": f});
        ctx.begin_case(|| case.clone());
        ctx.count("lean_environments_k4", 1);
        ctx.count("distinct_by_construction", 1);
        let key = format!("{TAG} lean environment: f={f:#x} over {S4:?} built by ite, then operations repeated");
        let r = guarded(|| {
            let env = BDDEnv::<usize>::new();
            let mut c: Vec<String> = vec![];
            let d = shannon(&env, f, 0, 0);
            if *d != *reference.canon(f) {
                c.push(format!("the ite cascade built {} instead of the diagram of {f:#x}", robdd::show(&d)));
            }
            let snap = robdd::deep_copy(&d);
            let mut held: Vec<H> = vec![d.clone()];
            let x = |i: usize| env.var(S4[i]);
            let steps: Vec<(&str, Box<dyn Fn() -> H + '_>, u64)> = vec![
                ("and(f, x3)", Box::new(|| env.and(d.clone(), x(3))), f & reference.var_tt(3)),
                ("or(f, x3)", Box::new(|| env.or(d.clone(), x(3))), f | reference.var_tt(3)),
                ("xor(x3, f)", Box::new(|| env.xor(x(3), d.clone())), f ^ reference.var_tt(3)),
                ("and(x0, f)", Box::new(|| env.and(x(0), d.clone())), f & reference.var_tt(0)),
                ("implies(f, x1)", Box::new(|| env.implies(d.clone(), x(1))), (!f & 0xffff) | reference.var_tt(1)),
                ("not(f)", Box::new(|| env.not(d.clone())), !f & 0xffff),
                ("exists([x2], f)", Box::new(|| env.exists(vec![S4[2]], d.clone())), crate::refl::exists_tt(4, 2, f)),
            ];
            for (name, op, want) in &steps {
                let a = op();
                let b = op();
                if !Rc::ptr_eq(&a, &b) {
                    c.push(format!("{name} executed twice returned two different allocations of {}", robdd::show(&a)));
                }
                if *a != *reference.canon(*want) || *b != *reference.canon(*want) {
                    c.push(format!("{name} = {} / {}, expected the diagram of {want:#x}", robdd::show(&a), robdd::show(&b)));
                }
                held.push(a);
                held.push(b);
                let refs: Vec<&H> = held.iter().collect();
                c.extend(table_invariants(&env, &refs).into_iter().map(|m| format!("after {name}: {m}")));
                if !c.is_empty() {
                    break;
                }
            }
            if *d != *snap {
                c.push("f itself changed".to_string());
            }
            c
        });
        match r {
            Err(p) => ctx.violation(key, format!("panicked: {p}"), case),
            Ok(c) if !c.is_empty() => ctx.violation(key, c.into_iter().take(3).collect::<Vec<_>>().join("; "), case),
            Ok(_) => ctx.count("transitions", 15),
        }
    }
}

// ---------------------------------------------------------------------------------------
// big tables: thresholds in the table size must not change anything

/// One environment that grows to ~66 000 nodes: 1 200 variables, then all 65 536 functions
/// of four variables through Shannon/ite, every handle held in exactly one place. At
/// checkpoints and at the end: everything reachable from a held handle is the shared table
/// node; recomputing a function by another route returns the very same node; size() equals
/// the number of distinct structures.
fn big_table_history(ctx: &mut Ctx) {
    let case = |what: &str| json!({"part": "big-table", "what": what});
    ctx.begin_case(|| case("run"));
    let env = BDDEnv::<usize>::new();
    let mut held: Vec<H> = vec![];
    let check = |ctx: &mut Ctx, env: &BDDEnv<usize>, held: &[H], what: String| -> bool {
        ctx.count("transitions", 1);
        let nodes = env.nodes.borrow();
        for h in held {
            for n in robdd::distinct_nodes(h) {
                match nodes.get(n.as_ref()) {
                    Some(e) if Rc::ptr_eq(e, &n) => {}
                    Some(_) => {
                        ctx.violation(format!("{TAG} big table: {what}"), format!("with {} table entries a node reachable from a held diagram is a second copy of a table node: {}", nodes.len(), robdd::show(&n)), case(&what));
                        return false;
                    }
                    None => {
                        ctx.violation(format!("{TAG} big table: {what}"), format!("with {} table entries a node reachable from a held diagram is no longer in the table: {}", nodes.len(), robdd::show(&n)), case(&what));
                        return false;
                    }
                }
            }
        }
        if !nodes.contains_key(&BDD::True) || !nodes.contains_key(&BDD::False) || env.size() != nodes.len() {
            ctx.violation(format!("{TAG} big table: {what}"), "a leaf is missing or size() disagrees with the table".into(), case(&what));
            return false;
        }
        true
    };
    // phase 1: p = x0 & x1 held once, then many unrelated variables
    let p = match guarded(|| env.and(env.var(0), env.var(1))) {
        Ok(p) => p,
        Err(m) => {
            ctx.violation(format!("{TAG} big table: and(var0,var1)"), format!("panicked: {m}"), case("phase1"));
            return;
        }
    };
    held.push(p.clone());
    for i in 2..1200usize {
        match guarded(|| env.var(i)) {
            Ok(v) => {
                if i % 3 == 0 {
                    held.push(v);
                }
            }
            Err(m) => {
                ctx.violation(format!("{TAG} big table: var({i})"), format!("panicked: {m}"), case("phase1"));
                return;
            }
        }
        if i % 128 == 0 && !check(ctx, &env, &held[..held.len().min(40)], format!("after creating {i} variables")) {
            return;
        }
    }
    match guarded(|| env.and(env.var(0), env.var(1))) {
        Ok(p2) if Rc::ptr_eq(&p2, &p) => {}
        Ok(_) => {
            ctx.violation(format!("{TAG} big table: recompute and(var0,var1)"), "recomputing a held diagram after 1200 further variables returns a different node".into(), case("phase1"));
            return;
        }
        Err(m) => {
            ctx.violation(format!("{TAG} big table: recompute and(var0,var1)"), format!("panicked: {m}"), case("phase1"));
            return;
        }
    }
    // phase 2: all functions of four variables (ids above the padding variables)
    let syms = [2000usize, 2003, 2004, 2009];
    let sp4 = Space::<usize>::empty(&syms);
    let mut by_tt: Vec<Option<H>> = vec![None; 65536];
    fn shannon(env: &BDDEnv<usize>, syms: &[usize], tt: u64, level: usize, memo: &mut Vec<Option<H>>) -> H {
        if let Some(h) = &memo[tt as usize] {
            return h.clone();
        }
        let k = 4;
        let r = if tt == 0 {
            env.mk_const(false)
        } else if tt == 0xffff {
            env.mk_const(true)
        } else {
            let cof = |val: bool| {
                let mut r = 0u64;
                for a in 0..16usize {
                    let b = if val { a | (1 << level) } else { a & !(1 << level) };
                    if (tt >> b) & 1 == 1 {
                        r |= 1 << a;
                    }
                }
                r
            };
            let _ = k;
            let t = shannon(env, syms, cof(true), level + 1, memo);
            let e = shannon(env, syms, cof(false), level + 1, memo);
            env.ite(env.var(syms[level]), t, e)
        };
        memo[tt as usize] = Some(r.clone());
        r
    }
    for tt in 0..65536u64 {
        match guarded(|| shannon(&env, &syms, tt, 0, &mut by_tt)) {
            Ok(h) => {
                if *h != *sp4.canon(tt) {
                    ctx.violation(format!("{TAG} big table: function {tt:#x}"), format!("with {} table entries the diagram built for {tt:#x} is not its canonical diagram", env.size()), case("phase2"));
                    return;
                }
                held.push(h);
            }
            Err(m) => {
                ctx.violation(format!("{TAG} big table: function {tt:#x}"), format!("panicked: {m}"), case("phase2"));
                return;
            }
        }
        if (tt + 1) % 8192 == 0 {
            let n = held.len();
            if !check(ctx, &env, &held[n - 300..], format!("after building {} functions of four variables", tt + 1)) {
                return;
            }
        }
    }
    // recompute every 37th function by negating twice: must be the very same node
    for tt in (0..65536u64).step_by(37) {
        let h = by_tt[tt as usize].clone().expect("built");
        match guarded(|| env.not(env.not(h.clone()))) {
            Ok(r) if Rc::ptr_eq(&r, &h) => {}
            Ok(_) => {
                ctx.violation(format!("{TAG} big table: recompute {tt:#x}"), "recomputing a held diagram returns a different node (sharing lost)".into(), case("phase3"));
                return;
            }
            Err(m) => {
                ctx.violation(format!("{TAG} big table: recompute {tt:#x}"), format!("panicked: {m}"), case("phase3"));
                return;
            }
        }
    }
    let n = held.len();
    if check(ctx, &env, &held[..400.min(n)], "at the end (oldest handles)".to_string()) {
        ctx.count("big_table_nodes", env.size() as u64);
    }
}

// ---------------------------------------------------------------------------------------
// definitions: `{name}` references resolved through ParsedFormula::define

/// Every sequence of <= 4 steps out of {eval, define f, define g (five contents each)} on ONE
/// ParsedFormula, for eight texts with references in different positions. After every step
/// the result of `eval()` must be structurally the result of evaluating a FRESH ParsedFormula of
/// the same text on which the current definitions were made before its first evaluation: what
/// was evaluated earlier must not matter.
fn definition_histories(ctx: &mut Ctx) {
    use rsbdd::parser::{ReferenceContents, SymbolicBDD};
    const TEXTS: [&str; 8] = ["{f}", "a & ({f} | b)", "-{f} => {g}", "exists a # a & {f}", "[{f}, a, {g}] >= 2", "lfp X # {f} | (X & b)", "{f} & (a | b)", "{f} ^ {g} ^ b"];
    // step 0 = eval; 1..=5 define f; 6..=10 define g
    let content = |p: &ParsedFormula, k: usize| -> ReferenceContents {
        let v = |n: &str| p.vars.iter().find(|s| s.name.as_str() == n).cloned();
        match k {
            0 => ReferenceContents::Syntax(SymbolicBDD::True),
            1 => ReferenceContents::Syntax(SymbolicBDD::False),
            2 => ReferenceContents::Syntax(v("a").map(SymbolicBDD::Var).unwrap_or(SymbolicBDD::True)),
            3 => ReferenceContents::BDD(v("b").map(|b| p.env.var(b)).unwrap_or_else(|| p.env.mk_const(true))),
            // a definition that itself refers to the other name (only ever stored under f)
            _ => ReferenceContents::Syntax(SymbolicBDD::BinaryOp(rsbdd::parser::BinaryOperator::Or, Box::new(SymbolicBDD::Reference("g".to_string())), Box::new(SymbolicBDD::Not(Box::new(v("b").map(SymbolicBDD::Var).unwrap_or(SymbolicBDD::False)))))),
        }
    };
    let apply = |p: &ParsedFormula, step: usize| {
        if step >= 1 {
            let (name, k) = if step <= 5 { ("f", step - 1) } else { ("g", step - 6) };
            if name == "g" && k == 4 {
                // g must not refer to itself: the fifth content of g is a plain literal
                let b = p.vars.iter().find(|s| s.name.as_str() == "b").cloned();
                p.define("g", ReferenceContents::Syntax(b.map(SymbolicBDD::Var).unwrap_or(SymbolicBDD::True)));
            } else {
                p.define(name, content(p, k));
            }
        }
    };
    let ordering: Vec<NamedSymbol> = ["a", "b", "X"].iter().enumerate().map(|(i, n)| crate::conv::sym(n, i * 2 + 1)).collect();
    let mut idx = 1u64 << 41;
    for (ti, text) in TEXTS.iter().enumerate() {
        for len in 1..=4usize {
            let mut seqs = vec![];
            crate::enumerate::for_each_seq(11, len, &mut |_, d| seqs.push(d.to_vec()));
            for d in seqs {
                idx += 1;
                if !ctx.mine(idx) || !d.contains(&0) {
                    continue;
                }
                let case = json!({"part": "definitions", "text": ti, "steps": d});
                ctx.begin_case(|| case.clone());
                ctx.count("definition_histories", 1);
                ctx.count("distinct_by_construction", 1);
                let key = format!("{TAG} definitions on {text}: steps {:?} (0 = eval, 1-5 define f, 6-10 define g)", d);
                let r = guarded(|| -> Option<String> {
                    let parse = || ParsedFormula::new(&mut std::io::BufReader::new(text.as_bytes()), Some(ordering.clone())).expect("machinery: text must parse");
                    let p = parse();
                    for (i, &st) in d.iter().enumerate() {
                        apply(&p, st);
                        if st != 0 {
                            continue;
                        }
                        rsbdd::verif_hooks::set_fp_fuel(Some(crate::conv::DEFAULT_FUEL));
                        let got = p.eval();
                        // a fresh formula that received the same definitions before its only evaluation
                        let q = parse();
                        for &s2 in &d[..i] {
                            apply(&q, s2);
                        }
                        let want = q.eval();
                        rsbdd::verif_hooks::set_fp_fuel(None);
                        if !robdd::same_by(&got, &want, &|x, y| x.id == y.id && x.name == y.name) {
                            return Some(format!("evaluation number {} gives {}, a fresh formula with the same definitions gives {}", d[..=i].iter().filter(|x| **x == 0).count(), robdd::show(&got), robdd::show(&want)));
                        }
                    }
                    None
                });
                rsbdd::verif_hooks::set_fp_fuel(None);
                match r {
                    Err(p) if p.contains("not supported") || p.contains("not implemented") => ctx.count("definition_histories_unsupported_by_the_engine", 1),
                    Err(p) => ctx.violation(key, format!("panicked: {p}"), case),
                    Ok(Some(m)) => ctx.violation(key, m, case),
                    Ok(None) => {}
                }
            }
        }
    }
}

// ---------------------------------------------------------------------------------------
// formula level: sequences of formulas sharing one environment

const FORMULAS: [&str; 12] = [
    "a & b",
    "a | -c",
    "exists a # a ^ b",
    "[a, b, c] = 1",
    "lfp X # a | (X & b)",
    "gfp X # X & (a | b)",
    "if a then b else c",
    "forall b # a => b",
    "[a, b] < [c]",
    "a <=> (b nand c)",
    "b & -a | c",
    "c | (exists X # X & b) | a",
];

fn formula_sequences(ctx: &mut Ctx) {
    formula_sequences_mode(ctx, true);
    formula_sequences_mode(ctx, false);
}

/// explicit: every formula is parsed with the same explicit ordering; otherwise with none,
/// so that each parse assigns its own default (first-appearance) order — the outcome (variable
/// lists by name and id, diagram) must be that of a fresh environment all the same
fn formula_sequences_mode(ctx: &mut Ctx, explicit: bool) {
    let ordering: Option<Vec<NamedSymbol>> = if explicit { Some(["a", "b", "c", "X"].iter().enumerate().map(|(i, n)| crate::conv::sym(n, i * 2 + 1)).collect()) } else { None };
    let lists = |p: &ParsedFormula| -> (Vec<(String, usize)>, Vec<(String, usize)>) { (p.vars.iter().map(|v| (v.name.to_string(), v.id)).collect(), p.free_vars.iter().map(|v| (v.name.to_string(), v.id)).collect()) };
    let fresh_p: Vec<ParsedFormula> = FORMULAS.iter().map(|f| ParsedFormula::new(&mut std::io::BufReader::new(f.as_bytes()), ordering.clone()).expect("machinery: formula set must parse")).collect();
    let fresh_lists: Vec<_> = fresh_p.iter().map(lists).collect();
    let fresh: Vec<Rc<BDD<NamedSymbol>>> = fresh_p.iter().map(|p| crate::conv::impl_eval(p).unwrap_or_default()).collect();
    let mut idx = if explicit { 0u64 } else { 1 << 32 };
    for len in 1..=3 {
        crate::enumerate::for_each_seq(FORMULAS.len(), len, &mut |_, d| {
            idx += 1;
            if !ctx.mine(idx) {
                return;
            }
            let case = json!({"part": "formulas", "sequence": d, "explicit_ordering": explicit});
            ctx.begin_case(|| case.clone());
            ctx.count("formula_sequences", 1);
            ctx.count("distinct_by_construction", 1);
            let key = format!("{TAG} formulas on one environment ({} ordering): {:?}", if explicit { "explicit" } else { "default" }, d.iter().map(|i| FORMULAS[*i]).collect::<Vec<_>>());
            let env = Rc::new(BDDEnv::<NamedSymbol>::new());
            let mut held: Vec<(usize, Rc<BDD<NamedSymbol>>)> = vec![];
            for &fi in d {
                ctx.count("transitions", 1);
                let r = guarded(|| {
                    let p = ParsedFormula::new_with_env(env.clone(), &mut std::io::BufReader::new(FORMULAS[fi].as_bytes()), ordering.clone()).expect("parse");
                    rsbdd::verif_hooks::set_fp_fuel(Some(crate::conv::DEFAULT_FUEL));
                    let r = p.eval();
                    rsbdd::verif_hooks::set_fp_fuel(None);
                    (r, lists(&p))
                });
                match r {
                    Err(p) => {
                        ctx.violation(key.clone(), format!("evaluating {} on the shared environment panicked: {p}", FORMULAS[fi]), case.clone());
                        return;
                    }
                    Ok((res, ls)) => {
                        if ls != fresh_lists[fi] {
                            ctx.violation(key.clone(), format!("{} parsed on the shared environment has variables {:?} / free {:?}, on a fresh one {:?} / {:?}", FORMULAS[fi], ls.0, ls.1, fresh_lists[fi].0, fresh_lists[fi].1), case.clone());
                            return;
                        }
                        if *res != *fresh[fi] {
                            ctx.violation(key.clone(), format!("{} evaluates to {} on the shared environment and to {} on a fresh one", FORMULAS[fi], robdd::show(&res), robdd::show(&fresh[fi])), case.clone());
                            return;
                        }
                        held.push((fi, res));
                    }
                }
                // re-inspect everything handed out so far + sharing invariants
                let mut complaints = vec![];
                for (i, h) in &held {
                    if **h != *fresh[*i] {
                        complaints.push(format!("the earlier result of {} changed", FORMULAS[*i]));
                    }
                }
                let nodes = env.nodes.borrow();
                for (k, v) in nodes.iter() {
                    if *k != **v {
                        complaints.push("table key differs from its value".to_string());
                    }
                    if let BDD::Choice(t, _, f) = v.as_ref() {
                        for c in [t, f] {
                            if !nodes.get(c.as_ref()).map(|e| Rc::ptr_eq(e, c)).unwrap_or(false) {
                                complaints.push(format!("child {} is not the shared table node", robdd::show(c)));
                            }
                        }
                    }
                }
                for (_, h) in &held {
                    for n in robdd::distinct_nodes(h) {
                        if !nodes.get(n.as_ref()).map(|e| Rc::ptr_eq(e, &n)).unwrap_or(false) {
                            complaints.push(format!("node {} reachable from a result is not the shared table node", robdd::show(&n)));
                        }
                    }
                }
                if !nodes.contains_key(&BDD::True) || !nodes.contains_key(&BDD::False) {
                    complaints.push("a leaf is missing".into());
                }
                drop(nodes);
                if !complaints.is_empty() {
                    complaints.truncate(3);
                    ctx.violation(key.clone(), complaints.join("; "), case.clone());
                    return;
                }
            }
        });
    }
}

fn scope(thorough: bool, nhandles: usize) -> Scope {
    if thorough {
        Scope { ite: true, count_list: 2, count_cmp: true, quant_len: 2 }
    } else {
        // quick: ite on every triple only for states with <= 8 nodes, counting lists <= 1
        Scope { ite: nhandles <= 8, count_list: 1, count_cmp: true, quant_len: 2 }
    }
}

fn run(ctx: &mut Ctx) {
    let w = World::new();
    let states = w.all_states();
    ctx.global("states", states.len() as u64);
    let mut memo = Memo { fresh: FxHashMap::default() };
    for (i, &mask) in states.iter().enumerate() {
        if !ctx.mine(i as u64) {
            continue;
        }
        ctx.count("states_expanded", 1);
        let n = mask.count_ones() as usize;
        explore_state(ctx, &w, &mut memo, mask, scope(ctx.thorough(), n), ctx.thorough() || n <= 8);
    }
    api_histories(ctx, &w, &mut memo);
    lean_recompute(ctx);
    // operands that are short-lived copies (addresses are reused from case to case) in an
    // environment that holds their interned twins: results must not depend on earlier calls
    if let Ok(spt) = Space::<usize>::by_interning(&[2, 3, 9]) {
        crate::closure::sweep_api(ctx, &spt, "transient", crate::closure::Oracle { semantic: true, canonical: true }, crate::closure::IteMode::CondInit, TAG);
    }
    if ctx.shard == 0 {
        big_table_history(ctx);
    }
    formula_sequences(ctx);
    definition_histories(ctx);
}

fn replay(ctx: &mut Ctx, case: &Value) {
    match case["part"].as_str() {
        Some("big-table") => big_table_history(ctx),
        Some("definitions") => {
            let mut c2 = Ctx::new("C13", ctx.tier, ctx.seed, 0, 1);
            definition_histories(&mut c2);
            for v in c2.violations {
                if v.replay == *case {
                    ctx.violation(v.key, v.what, v.replay);
                }
            }
        }
        Some("lean") => {
            // re-run the single function through a one-case context that owns exactly it
            let f = case["f"].as_u64().unwrap_or(0);
            let mut c2 = Ctx::new("C13", ctx.tier, ctx.seed, f % 65536, 65536);
            lean_recompute(&mut c2);
            for v in c2.violations {
                ctx.violation(v.key, v.what, v.replay);
            }
        }
        Some("api") => crate::closure::replay_api(ctx, case, crate::closure::Oracle { semantic: true, canonical: true }, TAG),
        Some("history") => {
            let w = World::new();
            let mut memo = Memo { fresh: FxHashMap::default() };
            let ops: Vec<HOp> = case["ops"].as_array().map(|a| a.iter().filter_map(dec_op).collect()).unwrap_or_default();
            run_history(ctx, &w, &mut memo, &ops);
        }
        Some("formulas") => {
            // re-run the whole (tiny) formula-level part; the recorded sequence is among them
            let mut c2 = Ctx::new("C13", ctx.tier, ctx.seed, 0, 1);
            formula_sequences(&mut c2);
            let want = format!("{:?}{:?}", case["sequence"], case["explicit_ordering"]);
            for v in c2.violations {
                if format!("{:?}{:?}", v.replay["sequence"], v.replay["explicit_ordering"]) == want {
                    ctx.violation(v.key, v.what, v.replay);
                }
            }
        }
        _ => {
            let w = World::new();
            let mask = case["state"].as_u64().unwrap_or(0x8001) as u16;
            let Some(op) = dec_op(&case["op_enc"]) else { return };
            let mut memo = Memo { fresh: FxHashMap::default() };
            let sp = w.build(mask);
            let (m0, _) = w.table_mask(&sp.env);
            if m0 != mask {
                ctx.violation(format!("{TAG} building table state {mask:#06x}"), format!("interning the nodes of state {mask:#06x} through mk_choice produced table {m0:#06x}"), case.clone());
                return;
            }
            let key = || format!("{TAG} table state {mask:#06x}: {:?}", op);
            let cj = || case.clone();
            if let Some(r) = step(ctx, &w, &mut memo, &sp.env, mask, &op, &key, &cj) {
                if let Some(f) = dec_op(&case["follow"]) {
                    let key2 = || format!("{TAG} table state {mask:#06x}: {:?} then {:?}", op, f);
                    let ra = step(ctx, &w, &mut memo, &sp.env, r.next, &f, &key2, &cj);
                    let spb = w.build(r.next);
                    let rb = guarded(|| exec(&w, &spb.env, &f));
                    if let (Some(ra), Ok(rb)) = (ra, rb) {
                        let nb = w.table_mask(&spb.env).0;
                        if ra.out != rb || ra.next != nb {
                            ctx.violation(key2(), "equal tables, different futures".into(), case.clone());
                        }
                    }
                }
            }
        }
    }
}
